"""C07 (round trip tables), C15 (npy conformance tables), C16 (damaged files rejected), C18 (chunking / I/O errors)."""
import re
from facts import P, pstr, op_place, op_local, op_const, const_val, ostr, rvstr, callee_is, callee_name, rv_operands
import an
import names as N
import rules_create as RC

H = "sfs_core::array::npy::header::"
NPY = "sfs_core::array::npy::"
TD = H + "TypeDescriptor"
GET_READ_FN = TD + "::get_read_fn"
TD_READ = TD + "::read"
READ_ARRAY = NPY + "read_array"
WRITE_ARRAY = NPY + "write_array"
HDR_WRITE = H + "Header::write"
HDR_READ = H + "Header::read"
TD_FMT = "<sfs_core::array::npy::header::TypeDescriptor as core::fmt::Display>::fmt"
TD_FROM_STR = "<sfs_core::array::npy::header::TypeDescriptor as core::str::traits::FromStr>::from_str"
HD_FMT = "<sfs_core::array::npy::header::HeaderDict as core::fmt::Display>::fmt"
PARSE = H + "parse::"
TEXT = "sfs_core::spectrum::io::text::"
TEXT_HDR_FMT = "<sfs_core::spectrum::io::text::Header as core::fmt::Display>::fmt"
TEXT_HDR_FROM_STR = "<sfs_core::spectrum::io::text::Header as core::str::traits::FromStr>::from_str"
IOFMT = "sfs_core::spectrum::io::Format"
READ_BUILDER_READ = "sfs_core::spectrum::io::read::Builder::read"
WRITE_BUILDER_WRITE = "sfs_core::spectrum::io::write::Builder::write"

RUST_TY = {"F4": "f32", "F8": "f64", "I1": "i8", "I2": "i16", "I4": "i32", "I8": "i64", "U1": "u8", "U2": "u16", "U4": "u32", "U8": "u64"}
WIDTH = {"f32": 4, "f64": 8, "i8": 1, "i16": 2, "i32": 4, "i64": 8, "u8": 1, "u16": 2, "u32": 4, "u64": 8}


def conv_path(rust_ty, endian):
    fn = "from_le_bytes" if endian == "Little" else "from_be_bytes"
    if rust_ty in ("f32", "f64"):
        return "core::%s::<impl %s>::%s" % (rust_ty, rust_ty, fn)
    return "core::num::<impl %s>::%s" % (rust_ty, fn)



def uses_item(f, item):
    """does f mention the const item (directly or through a promoted `&ITEM`)?"""
    def chk_op(o, g=f):
        if o["k"] != "const":
            return False
        if o.get("item") == item:
            return True
        if "promoted" in o:
            pc = an.promoted_const(f, o["promoted"])
            if pc is not None and pc.get("item") == item:
                return True
        return False
    for b in f.nodes():
        for s in f.stmts(b):
            if s["k"] == "assign":
                for o in rv_operands(s["rv"]):
                    if chk_op(o):
                        return True
        t = f.term(b)
        if t["k"] == "call":
            for o in t["args"]:
                if chk_op(o):
                    return True
    return False

# ====================================================================================
# C15
# ====================================================================================
def decoder_table(chk, f):
    """{(endian, type): closure path} from the nested match in get_read_fn"""
    table = {}
    outer = None
    for sb, st in f.switches():
        s = an.switch_subject(f, sb)
        if s["kind"] == "discr" and s.get("adt") == H + "Endian":
            outer = (sb, s)
    if outer is None:
        return None
    sb, s = outer
    for ev, en in s["variants"].items():
        et = an.edge_target(f.term(sb), ev)
        # inner switch on Type within this arm
        inner = None
        for ib in [et] + sorted(an.arm_region(f, sb, et)):
            if f.term(ib)["k"] == "switch":
                s2 = an.switch_subject(f, ib)
                if s2["kind"] == "discr" and s2.get("adt") == H + "Type":
                    inner = (ib, s2)
                    break
        if inner is None:
            return None
        ib, s2 = inner
        for tv, tn in s2["variants"].items():
            tt = an.edge_target(f.term(ib), tv)
            cl = None
            for b in [tt] + sorted(an.arm_region(f, ib, tt)):
                for st_ in f.stmts(b):
                    if st_["k"] == "assign" and st_["rv"]["k"] == "aggregate" and st_["rv"]["akind"] == "closure":
                        cl = st_["rv"]["closure"]
            table[(en, tn)] = cl
    return table


def check_C15(chk):
    chk.explanation = (
        "Table and constant clauses of C15: (a) all 20 (endianness, dtype) decoders allocate size_of(T) bytes, fill them with read_exact, convert "
        "with T::from_le_bytes / from_be_bytes according to the endianness and widen to f64; (b) dtype and endianness names agree between "
        "parser, Display and FromStr (10 + 3 rows, mutually inverse); (c) version tables agree between from_header_bytes, to_header_bytes, "
        "read_header_len, write_header_len and header_len_bytes_len; (d) the writer emits version 1.0, '<f8', fortran_order False, the array's "
        "own shape, elements in storage (C) order with to_le_bytes, and MAGIC, version, HEADER_LEN, dict, padding in that order; (e) the padding "
        "computation has no failing path (ALIGN = 64, newline always written); (f) Fortran order and unknown dtypes are rejected.")
    chk.not_decided = ("that the nom grammar accepts every spelling numpy emits; that len + pad is a multiple of 64 for all dict lengths "
                       "(modular arithmetic over a runtime length; the code's own assert_eq! states it)")
    c15a(chk)
    c15b(chk)
    c15c(chk)
    c15d(chk)
    c15e(chk)
    c15f(chk)
    # shared clauses: the bytes handed to the npy reader are the file's bytes (C07.e) and a written file holds nothing but what was written (C07.g)
    chk.borrow(lambda: (c07e(chk), c07g(chk)), "C15.g", 3)
    # .. `every npy file written` is written by write_array: stdout has two reviewed writers only (C10.d), and `view` writes the spectrum its
    # steps produced through the format writer, never the input bytes (C13.a)
    import rules_create as RC15_
    import rules_view as RV15_
    chk.borrow(lambda: RC15_.who_may_write(chk, "C10.d"), "C15.h", 2)
    chk.borrow_check(RV15_.check_C13, {"C13.a"}, "C15.i", 10)
    for r, n in (("C15.a", 21), ("C15.b", 24), ("C15.c", 11), ("C15.d", 8), ("C15.e", 3), ("C15.f", 3)):
        chk.floor(r, n)


def c15a(chk):
    f = chk.fn(GET_READ_FN)
    if f is None:
        return
    table = decoder_table(chk, f)
    if table is None:
        chk.fail("C15.a", "get_read_fn/table", f.loc(), "nested match on (Endian, Type) not recognised")
        return
    chk.ob("C15.a", "get_read_fn/20-arms-distinct", len(table) == 20 and len(set(table.values())) == 20 and None not in table.values(), f.loc(),
           "expected 20 arms with 20 distinct decoder closures (found %d arms, %d distinct)" % (len(table), len(set(table.values()))))
    for (en, tn), clp in sorted(table.items()):
        cl = chk.prog.fn(clp) if clp else None
        if cl is None:
            chk.fail("C15.a", "decoder(%s,%s)" % (en, tn), f.loc(), "decoder closure missing")
            continue
        chk.fns_analysed.add(clp)
        rt = RUST_TY.get(tn)
        want_conv = conv_path(rt, en) if rt else None
        # buffer: [const 0; width]
        widths = []
        buf_local = None
        for b, i, p, rv, s in cl.assigns():
            if rv["k"] == "repeat" and cl.local_ty(p[0]).startswith("[u8;"):
                m = re.match(r"\[u8; (\d+)\]", cl.local_ty(p[0]))
                widths.append(int(m.group(1)) if m else None)
                buf_local = p[0]
        re_calls = an.calls(cl, "std::io::Read::read_exact")
        fills = False
        if len(re_calls) == 1 and buf_local is not None:
            tgt = an.arg_pointee(cl, re_calls[0][1], 1)
            fills = tgt is not None and tgt[0] == buf_local
            prop = an.try_branch_of(cl, re_calls[0][0]) is not None
        else:
            prop = False
        convs = [(b, t) for b, t in cl.calls() if re.search(r"::from_(le|be|ne)_bytes$", t["callee"].get("path") or "")]
        conv_ok = len(convs) == 1 and callee_is(convs[0][1]["callee"], want_conv)
        conv_arg = False
        casts = []
        if len(convs) == 1:
            a = op_local(convs[0][1]["args"][0])
            conv_arg = a is not None and cl.copy_root(a) == buf_local
            d = an.call_dest_local(convs[0][1])
            for b, i, p, rv, s in cl.assigns():
                if rv["k"] == "cast" and op_local(rv["op"]) is not None and cl.copy_root(op_local(rv["op"])) == d:
                    casts.append((rv["kind"], rv["ty"]))
            # f64 needs no cast
            if rt == "f64" and not casts:
                oks = [rv for b, i, p, rv, s in cl.assigns() if rv["k"] == "aggregate" and rv.get("variant") == "Ok"]
                casts = [("identity", "f64")] if oks and op_local(oks[0]["ops"][0]) is not None and cl.copy_root(op_local(oks[0]["ops"][0])) == d else []
        cast_ok = casts in ([("IntToFloat", "f64")], [("FloatToFloat", "f64")], [("identity", "f64")])
        ok = widths == [WIDTH.get(rt)] and fills and prop and conv_ok and conv_arg and cast_ok
        chk.saw_calls(2)
        chk.ob("C15.a", "decoder(%s,%s)" % (en, tn), ok, cl.loc(),
               "(%s, %s) must read %s bytes with read_exact (`?`-propagated), convert with %s and widen to f64; found buffer %s, fills=%s, propagated=%s, conversion=%s, cast=%s"
               % (en, tn, WIDTH.get(rt), want_conv, widths, fills, prop, [callee_name(t["callee"]) for _, t in convs], casts))


def str_match_table(f, result_adt):
    """functions that compare a &str against literals and build enum variants: {literal: variant}.  Works for the
    `match s { "f4" => Type::F4, .. }` lowering (PartialEq::eq / memcmp chains) by pairing each str constant compared
    with the variant constructed on the equal edge."""
    table = {}
    for b, t in f.calls():
        c = t["callee"]
        if not (callee_is(c, "core::cmp::PartialEq::eq") or (c.get("path") or "").endswith("::eq")):
            continue
        lit = None
        for a in t["args"]:
            s = an.const_str_of(f, a)
            if s is not None:
                lit = s
        if lit is None:
            continue
        for sb, s in an.switches_on_call_result(f, b):
            tt = f.term(sb)["otherwise"]
            region = [tt] + sorted(an.arm_region(f, sb, tt))
            # the first variant construction dominated by the equal edge and not by a later comparison's equal edge
            for rb in region:
                for st in f.stmts(rb):
                    if st["k"] == "assign" and st["rv"]["k"] == "aggregate" and st["rv"].get("adt") == result_adt:
                        table.setdefault(lit, set()).add(st["rv"]["variant"])
    return table


def display_table(f, enum_adt):
    """`match self.x { V => "lit", .. }` -> {variant: literal}"""
    out = {}
    for sb, st in f.switches():
        s = an.switch_subject(f, sb)
        if s["kind"] == "discr" and s.get("adt") == enum_adt:
            for val, nm in s["variants"].items():
                tgt = an.edge_target(st, val)
                for b in [tgt] + sorted(an.arm_region(f, sb, tgt)):
                    for x in f.stmts(b):
                        if x["k"] == "assign" and x["rv"]["k"] == "use":
                            cv = const_val(x["rv"]["op"])
                            if isinstance(cv, dict) and "str" in cv:
                                out[nm] = cv["str"]
    return out


def nom_map_table(chk, f, result_adt):
    """`alt((map(tag("f4"), |_| Type::F4), ...))`: pair each tag literal with the variant built by the closure passed to
    the same `map` call -> {literal: variant}"""
    table = {}
    for b, t in f.calls():
        if not callee_is(t["callee"], "nom::combinator::map"):
            continue
        # first arg: result of tag(lit) / one_of(lit); second: closure
        l0 = op_local(t["args"][0])
        d0 = f.single_def(f.copy_root(l0)) if l0 is not None else None
        lit = None
        kind = None
        if d0 and d0[0] == "call":
            p = d0[2]["callee"].get("path") or ""
            if p in ("nom::bytes::complete::tag", "nom::character::complete::one_of"):
                lit = an.const_str_of(f, d0[2]["args"][0])
                kind = p.split("::")[-1]
        l1 = op_local(t["args"][1])
        d1 = f.single_def(l1) if l1 is not None else None
        var = None
        if d1 and d1[0] == "assign" and d1[3]["k"] == "aggregate" and d1[3]["akind"] == "closure":
            cl = chk.prog.fn(d1[3]["closure"])
            if cl is not None:
                for _, _, _, rv, _ in cl.assigns():
                    if rv["k"] == "aggregate" and rv.get("adt") == result_adt:
                        var = rv["variant"]
        if lit is not None:
            if kind == "one_of":
                for ch in lit:
                    table[ch] = var
            else:
                table[lit] = var
    return table


def c15b(chk):
    want_types = {k.lower(): k for k in RUST_TY}
    pt = chk.fn(PARSE + "parse_type")
    if pt is not None:
        tab = nom_map_table(chk, pt, H + "Type")
        for lit in sorted(set(tab) | set(want_types)):
            chk.ob("C15.b", "parse_type/%s" % lit, tab.get(lit) == want_types.get(lit), pt.loc(), "tag %r must parse to Type::%s (found %s)" % (lit, want_types.get(lit), tab.get(lit)))
    fmt = chk.fn(TD_FMT)
    if fmt is not None:
        tab = display_table(fmt, H + "Type")
        for v in sorted(set(tab) | set(RUST_TY)):
            chk.ob("C15.b", "Display/Type::%s" % v, tab.get(v) == v.lower(), fmt.loc(), "Type::%s must print as %r (found %r)" % (v, v.lower(), tab.get(v)))
        et = display_table(fmt, H + "Endian")
        chk.ob("C15.b", "Display/Endian", et == {"Little": "<", "Big": ">"}, fmt.loc(), "Little prints '<', Big prints '>' (found %s)" % et)
        pieces = [p for b, p, phs, t in an.format_calls(fmt)]
        chk.ob("C15.b", "Display/descr=endian+type", pieces == [["", "", ""]], fmt.loc(), "the descriptor is the endianness character followed by the type tag, nothing else (pieces %s)" % pieces)
    pe = chk.fn(PARSE + "parse_endian")
    if pe is not None:
        tab = nom_map_table(chk, pe, H + "Endian")
        chk.ob("C15.b", "parse_endian", tab == {"<": "Little", "|": "Little", ">": "Big"}, pe.loc(), "'<' and '|' are little endian, '>' is big endian (found %s)" % tab)
    de = chk.fn(PARSE + "parse_descr_entry")
    if de is not None:
        ac = an.calls(de, "nom::combinator::all_consuming")
        chk.ob("C15.b", "parse_descr_entry/all_consuming", len(ac) == 1, de.loc(), "the descr string must be consumed completely (rejects '<f8x', '<f16', ...)")
    alts = chk.fn(PARSE + "parse_type")
    if alts is not None:
        # alternatives are exactly the 10 literals
        tags = [an.const_str_of(alts, t["args"][0]) for b, t in an.calls(alts, "nom::bytes::complete::tag")]
        chk.ob("C15.b", "parse_type/exactly-10-tags", sorted(tags) == sorted(want_types), alts.loc(), "supported dtypes are exactly %s (found %s)" % (sorted(want_types), sorted(map(str, tags))))


def version_arm_table(f, want_adt=H + "Version"):
    for sb, st in f.switches():
        s = an.switch_subject(f, sb)
        if s["kind"] == "discr" and s.get("adt") == want_adt:
            return sb, st, s
    return None


def c15c(chk):
    f = chk.fn(H + "Version::from_header_bytes")
    if f is not None:
        # the major byte (bytes[0]) selects the version: a multi-way switch on it, or a chain of `byte == k` tests
        def is_major(op_or_place):
            pl = op_or_place if isinstance(op_or_place, tuple) else op_place(op_or_place)
            for _ in range(6):
                if pl is None:
                    return False
                l, proj = pl
                if l == 1:
                    idx = [e for e in proj if e[0] in ("constindex", "index")]
                    if len(idx) == 1 and idx[0][0] == "constindex":
                        return idx[0][1] == 0 and not idx[0][3]
                    if len(idx) == 1:
                        c = an.const_of(f, {"k": "copy", "place": {"l": idx[0][1], "p": []}})
                        return c is not None and c.get("val") == 0
                    return False
                if proj:
                    return False
                d = f.single_def(l)
                if not (d and d[0] == "assign" and d[3]["k"] == "use"):
                    return False
                pl = op_place(d[3]["op"])
            return False
        tab = {}
        subject_ok = True
        for b, i, p_, rv, x in f.assigns():
            if not (rv["k"] == "aggregate" and rv.get("adt") == H + "Version"):
                continue
            vals = set()
            for sb, st in f.switches():
                subj = an.switch_subject(f, sb)
                if subj["kind"] != "value":
                    continue
                dd = f.single_def(subj["root"]) if subj["root"] is not None else None
                if dd and dd[0] == "assign" and dd[3]["k"] == "binop" and dd[3]["op"] == "Eq":
                    # `byte == k` on the true edge
                    for x_, y_ in ((dd[3]["l"], dd[3]["r"]), (dd[3]["r"], dd[3]["l"])):
                        c = an.const_of(f, y_)
                        if c is not None and isinstance(c.get("val"), int) and is_major(x_) and an.dominated_by_edge(f, sb, st["otherwise"], b):
                            vals.add(c["val"])
                else:
                    for val, tgt in [(a_[0], a_[1]) for a_ in st["arms"]]:
                        if an.dominated_by_edge(f, sb, tgt, b) and tgt != st["otherwise"]:
                            if is_major(subj["place"]) or (subj["root"] is not None and is_major((subj["root"], ()))):
                                vals.add(val)
                            else:
                                subject_ok = False
            for v in vals:
                tab[v] = rv["variant"]
        chk.ob("C15.c", "from_header_bytes", tab == {1: "V1", 2: "V2", 3: "V3"}, f.loc(), "major version byte k selects Version::Vk (found %s)" % tab)
    f = chk.fn(H + "Version::to_header_bytes")
    if f is not None:
        r = version_arm_table(f)
        tab = {}
        if r:
            sb, st, s = r
            for val, nm in s["variants"].items():
                tgt = an.edge_target(st, val)
                for b in [tgt] + sorted(an.arm_region(f, sb, tgt)):
                    for x in f.stmts(b):
                        if x["k"] == "assign" and P(x["place"])[0] == 0:
                            rv = x["rv"]
                            if rv["k"] == "aggregate" and rv["akind"] == "array":
                                tab[nm] = [const_val(o) for o in rv["ops"]]
                            elif rv["k"] == "use":
                                cv = const_val(rv["op"])
                                if isinstance(cv, dict) and "bytes" in cv:
                                    tab[nm] = cv["bytes"]
        chk.ob("C15.c", "to_header_bytes", tab == {"V1": [1, 0], "V2": [2, 0], "V3": [3, 0]}, f.loc(), "Version::Vk is written as bytes [k, 0] (found %s)" % tab)
    # widths
    widths = {}
    for nm, path in (("read", H + "Version::read_header_len"), ("write", H + "Version::write_header_len"), ("len", H + "Version::header_len_bytes_len")):
        f = chk.fn(path)
        if f is None:
            continue
        r = version_arm_table(f)
        if not r:
            chk.fail("C15.c", "%s/match" % path.split("::")[-1], f.loc(), "match on Version not recognised")
            continue
        sb, st, s = r
        for val, vn in s["variants"].items():
            tgt = an.edge_target(st, val)
            region = [tgt] + sorted(an.arm_region(f, sb, tgt))
            info = {}
            for b in region:
                for x in f.stmts(b):
                    if x["k"] == "assign":
                        rv = x["rv"]
                        if rv["k"] == "repeat":
                            m = re.match(r"\[u8; (\d+)\]", f.local_ty(P(x["place"])[0]))
                            if m:
                                info["buf"] = int(m.group(1))
                        if rv["k"] == "use" and P(x["place"])[0] == 0 and isinstance(const_val(rv["op"]), int):
                            info["const"] = const_val(rv["op"])
                t = f.term(b)
                if t["k"] == "call":
                    p = t["callee"].get("path") or ""
                    m = re.match(r"core::num::<impl (u\d+)>::(from_le_bytes|to_le_bytes|from_be_bytes|to_be_bytes|from_ne_bytes|to_ne_bytes)$", p)
                    if m:
                        info["conv"] = (m.group(1), m.group(2))
                    if callee_is(t["callee"], "std::io::Read::read_exact"):
                        info["read_exact"] = True
                    if callee_is(t["callee"], "std::io::Write::write_all"):
                        info["write_all"] = True
            widths.setdefault(vn, {})[nm] = info
    for vn in ("V1", "V2", "V3"):
        w = widths.get(vn, {})
        ity, nbytes = ("u16", 2) if vn == "V1" else ("u32", 4)
        rd = w.get("read", {})
        wr = w.get("write", {})
        ln = w.get("len", {})
        chk.ob("C15.c", "read_header_len/%s" % vn, rd.get("buf") == nbytes and rd.get("conv") == (ity, "from_le_bytes") and rd.get("read_exact"), "",
               "%s: HEADER_LEN is a little-endian %s read with read_exact into %d bytes (found %s)" % (vn, ity, nbytes, rd))
        chk.ob("C15.c", "write_header_len/%s" % vn, wr.get("conv") == (ity, "to_le_bytes") and wr.get("write_all"), "",
               "%s: HEADER_LEN is written as little-endian %s with write_all (found %s)" % (vn, ity, wr))
        chk.ob("C15.c", "header_len_bytes_len/%s" % vn, ln.get("const") == nbytes, "", "%s: HEADER_LEN occupies %d bytes (found %s)" % (vn, nbytes, ln))


def c15d(chk):
    f = chk.fn(WRITE_ARRAY)
    if f is None:
        return
    aggs = {}
    for b, i, p, rv, s in f.assigns():
        if rv["k"] == "aggregate" and rv["akind"] == "adt" and rv["adt"].startswith(H):
            aggs[rv["adt"].split("::")[-1]] = rv["variant"]
    chk.ob("C15.d", "write_array/constants", aggs == {"Version": "V1", "Endian": "Little", "Type": "F8"}, f.loc(),
           "the writer declares version 1.0 and descr '<f8' (found %s)" % aggs)
    hd = an.calls(f, H + "HeaderDict::new")
    ok = len(hd) == 1 and const_val(hd[0][1]["args"][1]) is False
    shp = False
    if len(hd) == 1:
        sl, info = f.slice_locals(hd[0][1]["args"][2])
        nm = [x[1]["callee"].get("path") or "" for x in info["calls"]]
        shp = "sfs_core::array::Array::<T>::shape" in nm and not info["binops"] and not any(n.endswith(("::rev", "::reverse", "::sort")) for n in nm)
    chk.ob("C15.d", "write_array/fortran_order=false,shape=array.shape()", ok and shp, f.loc(), "HeaderDict::new(descr, false, array.shape().to_vec()) (fortran const false: %s, shape from array.shape(): %s)" % (ok, shp))
    # elements: every element of array.iter(), in order, encoded with to_le_bytes and written with write_all; a write error ends the function
    import iters as IT
    prog = chk.prog
    its = IT.iterations(prog, f)
    unit = [f] + prog.closures_of(f.path)
    wa = [(g_, b, t) for g_ in unit for b, t in an.calls(g_, "std::io::Write::write_all")]
    tl = [(g_, b, t) for g_ in unit for b, t in g_.calls() if re.search(r"::to_(le|be|ne)_bytes$", t["callee"].get("path") or "")]
    ok = flow = False
    why = "expected one write_all and one to_*_bytes inside one iteration over array.iter()"
    it = None
    if len(wa) == 1 and len(tl) == 1 and wa[0][0] is tl[0][0]:
        g_, wb, wt = wa[0]
        inside = [x for x in its if x.body is g_ and wb in x.blocks]
        it = min(inside, key=lambda x: len(x.blocks)) if inside else None
    if it is not None:
        g_, wb, wt = wa[0]
        chk.fns_analysed.add(g_.path)
        ch = it.chain()
        src = ch[-1][1]
        over = IT.chain_names(ch) == ["iter"] and callee_is(IT.chain_get(ch, "iter")["callee"], "sfs_core::array::Array::<T>::iter")
        enc = callee_is(tl[0][2]["callee"], "core::f64::<impl f64>::to_le_bytes") and it.elem_path(tl[0][2]["args"][0]) == ()
        tgt = an.arg_pointee(g_, wt, 1)
        flow = tgt is not None and tgt[0] == an.call_dest_local(tl[0][2])
        if it.kind == "loop":
            prop = an.try_branch_of(f, wb) is not None
        else:
            # try_for_each(|v| w.write_all(..)): the closure returns the write's Result, try_for_each stops at the first Err and its
            # Result is the function's return value or is propagated with `?`
            ret_direct = an.call_dest_local(wt) == 0 and not list(g_.switches())
            td = an.call_dest_local(it.term)
            prop = it.consumer == "try_for_each" and ret_direct and (td == 0 or an.try_branch_of(f, it.bb) is not None)
        ok = over and enc and prop
        why = "%s: over array.iter()=%s, f64::to_le_bytes of the element=%s, bytes handed to write_all=%s, write errors propagated=%s" % (it.describe(), over, enc, flow, prop)
    chk.ob("C15.d", "write_array/elements=to_le_bytes-in-storage-order", ok and flow, f.loc(), "every element of array.iter() is written as f64::to_le_bytes with write_all, errors propagated (%s)" % why)
    hw = an.calls(f, HDR_WRITE)
    first = it is not None and it.parent is f and len(hw) == 1 and f.dominates(hw[0][0], it.bb) and hw[0][0] != it.bb
    chk.ob("C15.d", "write_array/header-before-elements", first and an.try_branch_of(f, hw[0][0]) is not None, f.loc(),
           "Header::write(..)? dominates the element loop")
    ai = chk.fn("sfs_core::array::Array::<T>::iter")
    if ai is not None:
        cs = [callee_name(t["callee"]) for b, t in ai.calls()]
        chk.ob("C15.d", "Array::iter=data.iter()", cs[-1:] == ["core::slice::<impl [T]>::iter"] and all(c.endswith("::deref") for c in cs[:-1]) and any(an.self_field(ai.canon(P(s["rv"]["place"]))) == "data" for b in ai.nodes() for s in ai.stmts(b) if s["k"] == "assign" and s["rv"]["k"] == "ref"), ai.loc(), "Array::iter walks the flat row-major (C order) storage (calls %s)" % cs)
    # Header::write emission order
    w = chk.fn(HDR_WRITE)
    if w is not None:
        seq = []
        order = sorted([(b, t) for b, t in w.calls() if callee_is(t["callee"], "std::io::Write::write_all") or callee_is(t["callee"], H + "Version::write_header_len")], key=lambda x: x[0])
        # order by dominance
        items = []
        for b, t in order:
            if callee_is(t["callee"], H + "Version::write_header_len"):
                items.append((b, "HEADER_LEN"))
            else:
                sl, info = w.slice_locals(t["args"][1])
                item = "?"
                names_ = [x[1]["callee"] for x in info["calls"]]
                if any(callee_is(c, "alloc::vec::from_elem") for c in names_):
                    item = "PADDING"
                elif any(callee_is(c, "alloc::string::String::into_bytes") for c in names_):
                    item = "DICT"
                elif any(callee_is(c, H + "Version::to_header_bytes") for c in names_):
                    item = "VERSION"
                elif any(c.get("item") == NPY + "MAGIC" or ("promoted" in c and (an.promoted_const(w, c["promoted"]) or {}).get("item") == NPY + "MAGIC") for c in info["consts"]):
                    item = "MAGIC"
                items.append((b, item))
        items.sort(key=lambda x: sum(1 for y in items if w.dominates(y[0], x[0])))
        seq = [i for b, i in items]
        chk.ob("C15.d", "Header::write/emission-order", seq == ["MAGIC", "VERSION", "HEADER_LEN", "DICT", "PADDING"], w.loc(),
               "bytes are emitted as MAGIC, version, HEADER_LEN, dict, padding, each dominating the next (found %s)" % seq)
        prop = all(an.try_branch_of(w, b) is not None for b, t in order[:-1])
        last_ret = False
        if order:
            lb, lt = max(order, key=lambda x: sum(1 for y in order if w.dominates(y[0], x[0])))
            last_ret = P(lt["dest"])[0] == 0 or an.try_branch_of(w, lb) is not None
        chk.ob("C15.d", "Header::write/errors-propagate", prop and last_ret, w.loc(), "every write's Result is `?`-propagated or returned")
    d = chk.fn(HD_FMT)
    if d is not None:
        pcs = [p for b, p, phs, t in an.format_calls(d)]
        main = [p for p in pcs if any("descr" in x for x in p)]
        ok = main == [["{'descr': '", "', 'fortran_order': ", ", 'shape': ", ", }"]]
        tup = [p for p in pcs if p == ["(", ",)"]]
        lits = set()
        for b, i, p, rv, s in d.assigns():
            for o in rv_operands(rv):
                cv = const_val(o)
                if isinstance(cv, dict) and "str" in cv:
                    lits.add(cv["str"])
        chk.ob("C15.d", "HeaderDict::fmt/python-literal", ok and len(tup) == 1 and {"True", "False", ", "} <= lits, d.loc(),
               "dict text must be {'descr': '..', 'fortran_order': True|False, 'shape': (a, b,), } (pieces %s, literals %s)" % (pcs, sorted(lits)))


def c15e(chk):
    w = chk.fn(HDR_WRITE)
    if w is None:
        return
    al = chk.prog.consts.get(H + "ALIGN")
    chk.ob("C15.e", "ALIGN=64", al is not None and al.get("val") == 64, "", "data must start at a multiple of 64 bytes (ALIGN = %s)" % (al.get("val") if al else None))
    import rules_panic
    res = rules_panic.definite_failures(chk, w)
    chk.ob("C15.e", "Header::write/padding-has-no-must-fail-path", not res, w.loc(),
           "constant propagation along single paths: no assert/index may be implied to fail on a feasible path (%s)" % ("; ".join(res) or "none found"))
    # the padding: pad = 0 if len % ALIGN == 0 else ALIGN - len % ALIGN (with len including the terminating newline), so that the data
    # start at a multiple of ALIGN (and the assert_eq! after it cannot fire)
    rems = [(p_[0], rv) for _, _, p_, rv, _ in w.assigns() if rv["k"] == "binop" and rv["op"].startswith("Rem") and (an.const_of(w, rv["r"]) or {}).get("val") == 64]
    pad_ok = False
    why_pad = "len % ALIGN not found"
    for rl, rrv in rems:
        rl_users = {l for l in range(len(w.locals)) if w.copy_root(l) == rl} | {rl}
        for sb, st in w.switches():
            ss = an.switch_subject(w, sb)
            d_ = w.single_def(ss["root"]) if ss["kind"] == "value" and ss["root"] is not None else None
            if not (d_ and d_[0] == "assign" and d_[3]["k"] == "binop" and d_[3]["op"] in ("Eq", "Ne")):
                continue
            sides = [op_local(d_[3]["l"]), op_local(d_[3]["r"])]
            cs = [const_val(d_[3]["l"]), const_val(d_[3]["r"])]
            if not (any(x is not None and w.copy_root(x) == rl for x in sides) and 0 in cs):
                continue
            zero_t, nonzero_t = (st["otherwise"], an.edge_target(st, 0)) if d_[3]["op"] == "Eq" else (an.edge_target(st, 0), st["otherwise"])
            # the value that is merged from the two arms
            for pl in range(len(w.locals)):
                ds = w.defs.get(pl, [])
                if len(ds) != 2 or not all(x[0] == "assign" for x in ds):
                    continue
                zs = [x for x in ds if x[3]["k"] == "use" and const_val(x[3]["op"]) == 0 and an.dominated_by_edge(w, sb, zero_t, x[1])]
                nz = []
                for x in ds:
                    bo = None
                    if x[3]["k"] == "binop":
                        bo = x[3]
                    elif x[3]["k"] == "use":
                        bo = an.binop_def(w, x[3]["op"])
                    if bo and bo["op"].startswith("Sub") and (an.const_of(w, bo["l"]) or {}).get("val") == 64 and op_local(bo["r"]) is not None and w.copy_root(op_local(bo["r"])) == rl and an.dominated_by_edge(w, sb, nonzero_t, x[1]):
                        nz.append(x)
                if len(zs) == 1 and len(nz) == 1:
                    pad_ok = True
                    why_pad = "pad = 0 on the `len % 64 == 0` edge, 64 - len % 64 on the other"
        if not pad_ok:
            # the same number without a branch: (64 - len % 64) % 64
            for _, _, p2_, rv2, _ in w.assigns():
                if rv2["k"] == "binop" and rv2["op"].startswith("Rem") and (an.const_of(w, rv2["r"]) or {}).get("val") == 64:
                    bo = an.binop_def(w, rv2["l"])
                    if bo and bo["op"].startswith("Sub") and (an.const_of(w, bo["l"]) or {}).get("val") == 64 and op_local(bo["r"]) is not None and w.copy_root(op_local(bo["r"])) == rl:
                        pad_ok = True
                        why_pad = "pad = (64 - len % 64) % 64"
        if not pad_ok:
            why_pad = "the value merged from the two arms of `len % 64 == 0` is not (0, 64 - len % 64)"
    chk.ob("C15.e", "Header::write/padding=(-len) mod 64", pad_ok, w.loc(), "the number of padding spaces makes the header length a multiple of 64: %s" % why_pad)
    # a newline is written on every path: the store of b'\n' post-dominates the padding allocation or the newline is part of the length
    nl = []
    for b, i, p, rv, s in w.assigns():
        if rv["k"] == "use" and const_val(rv["op"]) == 10 and (p[1] and p[1][-1][0] in ("index", "constindex", "deref")):
            nl.append(b)
    for b, t in w.calls():
        if callee_is(t["callee"], "alloc::vec::Vec::<T, A>::push") and const_val(t["args"][1]) == 10:
            nl.append(b)
        if callee_is(t["callee"], "std::io::Write::write_all"):
            bs = an.const_bytes_of(w, t["args"][1])
            if bs == [10]:
                nl.append(b)
    rets = w.return_blocks()
    wall = [b for b, t in w.calls() if callee_is(t["callee"], "std::io::Write::write_all")]
    last = max(wall, key=lambda x: sum(1 for y in wall if w.dominates(y, x))) if wall else None
    ok = bool(nl) and last is not None and all(w.dominates(n, last) or n == last for n in nl[:1])
    chk.ob("C15.e", "Header::write/newline-on-every-path", ok, w.loc(), "the header's terminating newline is written on every successful path (newline stores at %s)" % [w.loc(b) for b in nl])


def npy_rejection_reasons(chk, rule):
    """a numpy-laid-out file is refused for four reasons of its own (magic, version, Fortran order, value count) besides what the dict parser
    and the byte reads report: every further `io::Error::new(.., "literal")` in the npy module is a new reason to refuse a file"""
    prog = chk.prog
    lits = []
    for g in prog.fn_list:
        if g.derived or not g.path.startswith("sfs_core::array::npy"):
            continue
        for b, t in g.calls():
            nm = callee_name(t["callee"])
            if nm.endswith("io::error::Error::new") or nm.endswith("io::error::Error::other"):
                msg = [an.const_str_of(g, a) for a in t["args"]]
                msg = [m for m in msg if isinstance(m, str)]
                if msg:
                    lits.append((msg[0], g.loc(b)))
    chk.ob(rule, "npy-reader/own-rejection-reasons<=4", 1 <= len(lits) <= 4, "",
           "literal-message errors constructed in array::npy: %s (reviewed: bad magic, unknown version, Fortran order, value count != product of shape)" % lits)


def c15f(chk):
    npy_rejection_reasons(chk, "C15.f")
    f = chk.fn(READ_ARRAY)
    if f is None:
        return
    rd = an.calls(f, TD_READ)
    ok = False
    why = "fortran test not recognised"
    if len(rd) == 1:
        for sb, st in f.switches():
            s = an.switch_subject(f, sb)
            if s["kind"] != "value":
                continue
            sl, info = f.slice_locals(st["discr"])
            if (H + "HeaderDict", "fortran_order") in info["fields"]:
                false_t = an.edge_target(st, 0)
                true_t = st["otherwise"]
                dom = an.dominated_by_edge(f, sb, false_t, rd[0][0])
                # what can follow the true edge (an Err built in a helper and handed on with `?` included: edges that would need the
                # Ok variant are not paths from here)
                r = an.reachable_with_edges_removed(f, true_t, set(), an.infeasible_edges_from(f, true_t, None))
                rets_ = (f.raw.get("inlined_ret") or []) + [0]
                errs = any(x["k"] == "assign" and x["rv"]["k"] == "aggregate" and x["rv"].get("variant") == "Err" and P(x["place"])[0] in rets_ for b in r for x in f.stmts(b))
                reads = any(callee_is(f.term(b)["callee"], TD_READ, "sfs_core::array::Array::<T>::new") for b in r if f.term(b)["k"] == "call")
                ok = dom and errs and not reads
                why = "values read only on fortran_order == false: %s; true edge returns Err: %s" % (dom, errs and not reads)
    chk.ob("C15.f", "read_array/fortran-rejected", ok, f.loc(), why)
    pf = chk.fn(PARSE + "parse_fortran_order_entry")
    pb = chk.fn(PARSE + "parse_bool")
    if pb is not None:
        tab = {}
        for b, t in pb.calls():
            if callee_is(t["callee"], "nom::combinator::map"):
                l0 = op_local(t["args"][0])
                d0 = pb.single_def(pb.copy_root(l0)) if l0 is not None else None
                lit = an.const_str_of(pb, d0[2]["args"][0]) if d0 and d0[0] == "call" else None
                l1 = op_local(t["args"][1])
                d1 = pb.single_def(l1) if l1 is not None else None
                val = None
                if d1 and d1[0] == "assign" and d1[3]["k"] == "aggregate" and d1[3]["akind"] == "closure":
                    cl = chk.prog.fn(d1[3]["closure"])
                    for _, _, p, rv, _ in cl.assigns():
                        if p[0] == 0 and rv["k"] == "use":
                            val = const_val(rv["op"])
                tab[lit] = val
        chk.ob("C15.f", "parse_bool", tab == {"True": True, "False": False}, pb.loc(), "Python literals True/False map to true/false (found %s)" % tab)
    hd = chk.fn("<sfs_core::array::npy::header::HeaderDict as core::str::traits::FromStr>::from_str")
    if hd is not None:
        # the dict is built (HeaderDict::new / Ok(..)) only when all three entries were seen: three distinct Option values are Some on
        # every path to the construction (tested directly, or through `?`)
        news = [b for b, t in hd.calls() if callee_is(t["callee"], H + "HeaderDict::new")]
        oks = [b for b, i, p, rv, s in hd.assigns() if rv["k"] == "aggregate" and rv.get("variant") == "Ok" and p[0] == 0]
        anchors = news or oks
        ok = False
        seen_opts = set()
        if len(anchors) == 1:
            for sb, st in hd.switches():
                s_ = an.switch_subject(hd, sb)
                if s_["kind"] != "discr" or s_["place"] is None:
                    continue
                ty = s_.get("ty") or ""
                src = None
                if "core::option::Option" in ty and an.dominated_by_edge(hd, sb, an.variant_target(hd, sb, "Some"), anchors[0]):
                    src = hd.canon(s_["place"])
                elif "ControlFlow" in ty and an.dominated_by_edge(hd, sb, an.variant_target(hd, sb, "Continue"), anchors[0]):
                    d_ = hd.single_def(hd.copy_root(s_["place"][0]))
                    if d_ and d_[0] == "call" and callee_is(d_[2]["callee"], "core::ops::try_trait::Try::branch") and "core::option::Option" in " ".join(d_[2]["callee"].get("args", []) + [d_[2]["callee"].get("self_ty") or ""]):
                        pl_ = op_place(d_[2]["args"][0])
                        if pl_ is not None:
                            l_ = pl_[0]
                            dd_ = hd.single_def(l_)
                            if dd_ and dd_[0] == "assign" and dd_[3]["k"] == "use" and op_place(dd_[3]["op"]) is not None:
                                src = hd.canon(op_place(dd_[3]["op"]))
                            else:
                                src = (l_, ())
                if src is not None:
                    seen_opts.add((src[0], tuple(e[:2] for e in src[1] if e[0] == "field")))
            ok = len(seen_opts) >= 3
        chk.ob("C15.f", "HeaderDict::from_str/requires-descr-fortran_order-shape", ok, hd.loc(), "a dict lacking any of the three keys is rejected (distinct Option values required to be Some before the dict is built: %d)" % len(seen_opts))


# ====================================================================================
# C07
# ====================================================================================
def check_C07(chk):
    chk.explanation = (
        "Writer/reader agreement clauses of C07: (a) npy values: the writer encodes with f64::to_le_bytes under descr (Little, F8) and the decoder "
        "row (Little, F8) is f64::from_le_bytes on an 8-byte read_exact buffer (from_le_bytes . to_le_bytes is the identity on all 2^64 bit "
        "patterns, so NaN payloads and infinities survive); (b) npy header literals ('descr', 'fortran_order', 'shape', True/False, magic) agree "
        "between writer, parser and detector; (c) text literals agree: the written header starts with the detector's START constant, the shape "
        "separator is the same character on both sides, values are separated by ASCII whitespace, lines end in newline; (d) one detector and "
        "one writer arm per Format variant; (e) view/fold/stat read with auto-detection over the complete input.")
    chk.not_decided = "text precision/rounding (half a unit of the p-th decimal), the 15-significant-digit clause, nom grammar acceptance beyond literal agreement"
    c07a(chk)
    c07b(chk)
    c07c(chk)
    c07d(chk)
    c07e(chk)
    c07f(chk)
    c07g(chk)
    import rules_num
    rules_num.scs_from_array_is_a_wrapper(chk, "C07.e")
    # shared clause: every precision the text writer is asked for is the one given on the command line, up to the formatter's own limit
    import rules_panic as RP_
    chk.borrow(lambda: RP_.precision_bound(chk, "C17.f"), "C07.h", 2)
    # .. the npy writer emits the header and then every element once, in storage order (C15.d), the decoder table is exact for every dtype
    # (C15.a), and `view` hands the values it read to the writer untouched unless one of its four steps is asked for (C13.a/b)
    chk.borrow(lambda: (c15a(chk), c15d(chk)), "C07.i", 20)
    import rules_view as RV7_
    chk.borrow_check(RV7_.check_C13, {"C13.a", "C13.b"}, "C07.j", 10)
    # .. and the text reader takes every value of the body it is given (C16.d)
    chk.borrow(lambda: c16d(chk), "C07.k", 2)
    for r, n in (("C07.a", 3), ("C07.b", 5), ("C07.c", 5), ("C07.d", 4), ("C07.e", 5), ("C07.f", 6), ("C07.g", 2)):
        chk.floor(r, n)


def c07g(chk):
    """a spectrum written to an existing, longer file must replace it: every file opened for writing in the workspace is created-or-truncated"""
    prog = chk.prog
    n = 0
    for f in prog.fn_list:
        if f.derived:
            continue
        for b, t in f.calls():
            p = t["callee"].get("path") or ""
            if p in ("std::fs::File::create", "std::fs::write"):
                n += 1
                chk.saw_calls()
                chk.ob("C07.g", "open-for-write/%s@%s" % (p.split("::")[-1], RPN(f.path)), True, f.loc(b), "%s truncates an existing file: no stale bytes follow the new contents" % p, nontrivial=False)
            elif p in ("std::fs::OpenOptions::open", "std::fs::File::create_new") or p.startswith("std::fs::OpenOptions::") and p.endswith("::open"):
                n += 1
                chk.saw_calls()
                unit = [f] + prog.closures_of(f.path)
                def flag(name):
                    vals = []
                    for g in unit:
                        for b2, t2 in g.calls():
                            if (t2["callee"].get("path") or "") == "std::fs::OpenOptions::" + name and len(t2["args"]) == 2:
                                c = an.const_of(g, t2["args"][1])
                                vals.append(c.get("val") if c else None)
                    return vals
                writes = any(v is True for v in flag("write")) or any(v is True for v in flag("append"))
                ok = (not writes) or flag("truncate") == [True] or flag("append") == [True] or p.endswith("create_new")
                chk.ob("C07.g", "open-for-write/OpenOptions@%s" % RPN(f.path), ok, f.loc(b),
                       "a file opened for writing without truncate(true) keeps the tail of a longer previous file: the written spectrum is followed by stale bytes and cannot be read back (write=%s truncate=%s append=%s)" % (flag("write"), flag("truncate"), flag("append")))
    w = chk.fn("sfs_core::spectrum::io::write::Builder::write_to_path")
    if w is not None:
        opens = [callee_name(t["callee"]) for b, t in w.calls() if callee_name(t["callee"]) in ("std::fs::File::create", "std::fs::File::create_new", "std::fs::OpenOptions::open", "std::fs::write", "std::fs::File::open")]
        chk.ob("C07.g", "write_to_path/opens-the-output-once", len(opens) == 1, w.loc(), "write_to_path opens its target with %s" % opens)


def RPN(path):
    import rules_panic
    return rules_panic.norm_fn(path).split("sfs_core::")[-1]


def c07a(chk):
    f = chk.fn(WRITE_ARRAY)
    g = chk.fn(GET_READ_FN)
    if f is None or g is None:
        return
    tl = [(b, t) for g_ in [f] + chk.prog.closures_of(f.path) for b, t in g_.calls() if re.search(r"::to_(le|be|ne)_bytes$", t["callee"].get("path") or "")]
    decl = {}
    for b, i, p, rv, s in f.assigns():
        if rv["k"] == "aggregate" and rv["akind"] == "adt" and rv["adt"] in (H + "Endian", H + "Type"):
            decl[rv["adt"].split("::")[-1]] = rv["variant"]
    enc = callee_name(tl[0][1]["callee"]) if len(tl) == 1 else None
    chk.ob("C07.a", "writer/encoding-matches-declared-descr", decl == {"Endian": "Little", "Type": "F8"} and enc == "core::f64::<impl f64>::to_le_bytes", f.loc(),
           "declared descr %s, element encoding %s" % (decl, enc))
    table = decoder_table(chk, g)
    row = table.get((decl.get("Endian"), decl.get("Type"))) if table else None
    cl = chk.prog.fn(row) if row else None
    ok = False
    dec = None
    if cl is not None:
        convs = [t for b, t in cl.calls() if re.search(r"::from_(le|be|ne)_bytes$", t["callee"].get("path") or "")]
        dec = callee_name(convs[0]["callee"]) if len(convs) == 1 else None
        casts = [rv for _, _, _, rv, _ in cl.assigns() if rv["k"] == "cast" and rv["kind"] in ("IntToFloat", "FloatToFloat", "FloatToInt")]
        ok = enc is not None and dec == enc.replace("to_le_bytes", "from_le_bytes").replace("to_be_bytes", "from_be_bytes") and not casts
    chk.ob("C07.a", "reader-row-for-written-descr/inverse-of-writer", ok, cl.loc() if cl is not None else g.loc(),
           "the decoder selected by the descr the writer declares must be the exact inverse of the writer's encoding, with no numeric cast in between (writer %s, reader %s)" % (enc, dec))
    chk.ob("C07.a", "reader-row/8-byte-read_exact", cl is not None and any(cl.local_ty(p[0]) == "[u8; 8]" for _, _, p, rv, _ in cl.assigns() if rv["k"] == "repeat"), cl.loc() if cl is not None else g.loc(),
           "that decoder reads exactly 8 bytes per value")


def c07b(chk):
    d = chk.fn(HD_FMT)
    keys_w = set()
    if d is not None:
        for b, pieces, phs, t in an.format_calls(d):
            for p in pieces:
                keys_w |= set(re.findall(r"'(\w+)':", p))
    keys_r = set()
    for nm in ("parse_descr_entry", "parse_fortran_order_entry", "parse_shape_entry"):
        f = chk.fn(PARSE + nm)
        if f is None:
            continue
        for b, t in an.calls(f, PARSE + "parse_target_string"):
            s = an.const_str_of(f, t["args"][0])
            keys_r.add(s)
    chk.ob("C07.b", "npy-dict-keys/writer=reader", keys_w == keys_r == {"descr", "fortran_order", "shape"}, d.loc() if d else "",
           "keys written %s, keys parsed %s" % (sorted(keys_w), sorted(map(str, keys_r))))
    # booleans
    lits = set()
    if d is not None:
        for b, i, p, rv, s in d.assigns():
            for o in rv_operands(rv):
                cv = const_val(o)
                if isinstance(cv, dict) and "str" in cv:
                    lits.add(cv["str"])
    pb = chk.fn(PARSE + "parse_bool")
    rl = set()
    if pb is not None:
        for b, t in an.calls(pb, "nom::bytes::complete::tag"):
            rl.add(an.const_str_of(pb, t["args"][0]))
    chk.ob("C07.b", "npy-bool-literals/writer=reader", {"True", "False"} <= lits and rl == {"True", "False"}, pb.loc() if pb else "", "written %s, parsed %s" % (sorted(lits & {"True", "False", "true", "false"}), sorted(map(str, rl))))
    # magic shared
    users = {}
    for path in (HDR_WRITE, HDR_READ, "sfs_core::spectrum::io::Format::detect_npy"):
        f = chk.fn(path)
        if f is None:
            continue
        uses = uses_item(f, NPY + "MAGIC")
        users[path.split("::")[-2] + "::" + path.split("::")[-1]] = uses
    mg = chk.prog.consts.get(NPY + "MAGIC")
    chk.ob("C07.b", "npy-magic/one-constant", all(users.values()) and len(users) == 3 and mg is not None and mg.get("val") == {"bytes": [0x93, 78, 85, 77, 80, 89]}, "",
           "writer, reader and detector all use npy::MAGIC = \\x93NUMPY (uses: %s)" % users)
    # shape tuple: writer "(a, b,)" ; parser: "(" separated_list1_opt(",") ")"
    ps = chk.fn(PARSE + "parse_shape")
    ok = False
    if ps is not None:
        tags = sorted(an.const_str_of(ps, t["args"][0]) or "" for b, t in an.calls(ps, "nom::bytes::complete::tag"))
        ok = tags == ["(", ")"]
    ss = chk.fn(PARSE + "shape_sep")
    sep = None
    if ss is not None:
        for b, t in an.calls(ss, PARSE + "whitespace_sep"):
            sep = an.const_str_of(ss, t["args"][0])
    chk.ob("C07.b", "npy-shape-tuple/writer=reader", ok and sep == ",", ps.loc() if ps else "", "written as '(a, b,)', parsed as '(' list(',') [','] ')' (separator %r)" % sep)
    # descr goes through the C15.b tables on both sides
    de = chk.fn(PARSE + "parse_descr_entry")
    ok = de is not None and len(an.calls(de, "nom::combinator::all_consuming")) == 1 and d is not None and any(callee_is(t["callee"], "alloc::string::ToString::to_string") and "TypeDescriptor" in " ".join(t["callee"].get("args", [])) for b, t in d.calls())
    chk.ob("C07.b", "npy-descr/through-type-tables", ok, "", "writer prints the descr with TypeDescriptor's Display, reader parses it with parse_type_descriptor (tables checked in C15.b)")


def float_computation_in(prog, fns):
    """every f64 operation written in the given bodies: arithmetic, comparison, negation, int<->float casts, float literals, f64 methods"""
    comp = []
    for g_ in fns:
        for b_, i_, p_, rv_, s_ in g_.assigns():
            if rv_["k"] == "binop" and ("f64" in (rv_.get("lty") or "") or "f64" in (rv_.get("rty") or "") or "f32" in (rv_.get("lty") or "")):
                comp.append("%s at %s" % (rv_["op"], g_.loc(b_)))
            if rv_["k"] == "unop" and "f64" in (rv_.get("ty") or g_.local_ty(p_[0]) or "") and rv_["op"] == "Neg":
                comp.append("Neg at %s" % g_.loc(b_))
            if rv_["k"] == "cast" and (("f64" in (rv_.get("from") or "")) != ("f64" in (rv_.get("ty") or ""))):
                comp.append("cast %s->%s at %s" % (rv_.get("from"), rv_.get("ty"), g_.loc(b_)))
            if rv_["k"] == "use" and isinstance(const_val(rv_["op"]), dict) and "f" in const_val(rv_["op"]):
                comp.append("float literal %s at %s" % (const_val(rv_["op"])["f"], g_.loc(b_)))
        for b_, t_ in g_.calls():
            nm_ = callee_name(t_["callee"])
            if nm_.startswith(("std::f64::<impl f64>::", "core::f64::<impl f64>::", "core::num::<impl f64>::")):
                comp.append("%s at %s" % (nm_.split("::")[-1], g_.loc(b_)))
    return comp


def c07c(chk):
    prog = chk.prog
    hf = chk.fn(TEXT_HDR_FMT)
    start = prog.consts.get(TEXT + "START")
    sbytes = (start or {}).get("val", {}).get("bytes") if start else None
    pieces = []
    if hf is not None:
        for b, p, phs, t in an.format_calls(hf):
            pieces.append(p)
    main = [p for p in pieces if len(p) == 2 and p[1] == ">"]
    ok = sbytes is not None and len(main) == 1 and list(main[0][0].encode()[:len(sbytes)]) == sbytes
    chk.ob("C07.c", "text-header/starts-with-detector-START", ok, hf.loc() if hf else "",
           "the written header %r must begin with text::START = %r (the writer does not use the constant, so they can drift)" % (main[0][0] if main else None, bytes(sbytes or []).decode("latin1")))
    # shape separator
    wsep = None
    if hf is not None:
        seps = set()
        for g_ in [hf] + prog.closures_of(hf.path):
            for b, t in g_.calls():
                nm = callee_name(t["callee"]).split("::")[-1]
                full = t["callee"].get("path") or ""
                if full == "alloc::slice::<impl [T]>::join" or (nm in ("push_str", "write_str") and len(t["args"]) == 2):
                    v = an.const_str_of(g_, t["args"][1])
                    if v is not None:
                        seps.add(v)
                elif nm in ("push", "write_char") and len(t["args"]) == 2 and ("String" in full or "fmt::Write" in full or "Formatter" in full):
                    c = an.const_of(g_, t["args"][1])
                    if c is not None and isinstance(c.get("val"), str):
                        seps.add(c["val"])
        # the separator between the axis lengths: join("/"), or push('/') / push_str("/") / write_char('/') between elements of a loop
        wsep = seps.pop() if len(seps) == 1 else (None if not seps else "ambiguous:%s" % sorted(seps))
    fs = chk.fn(TEXT_HDR_FROM_STR)
    rsep = None
    if fs is not None:
        for b, t in an.calls(fs, "core::str::<impl str>::split"):
            c = an.const_of(fs, t["args"][1])
            rsep = c.get("val") if c else None
    chk.ob("C07.c", "text-shape-separator/writer=reader", wsep is not None and wsep == rsep and len(wsep) == 1, hf.loc() if hf else "", "join(%r) vs split(%r)" % (wsep, rsep))
    # the reader's trimming closures keep digits: header delimiters are non-numeric on both ends
    ok = main and not any(ch.isdigit() for ch in main[0][0] + main[0][1]) if main else False
    chk.ob("C07.c", "text-header/delimiters-non-numeric", bool(ok), hf.loc() if hf else "", "the reader trims non-numeric characters around the shape list; the written prefix/suffix must contain no digit")
    # value separator
    ws = chk.fn(TEXT + "write_spectrum")
    vsep = None
    if ws is not None:
        for b, t in an.calls(ws, TEXT + "format_spectrum"):
            vsep = an.const_str_of(ws, t["args"][1])
        if vsep is None and prog.fn(TEXT + "format_spectrum") is ws:
            # the formatter was merged into write_spectrum (or replaced by a helper that canon.py inlined): the separator is the string
            # constant handed to it, now an assignment to the inlined parameter
            cands = set()
            for b_ in ws.nodes():
                for st_ in ws.stmts(b_):
                    if st_["k"] == "assign" and st_.get("inlined") and st_["rv"]["k"] == "use":
                        v_ = an.const_str_of(ws, st_["rv"]["op"])
                        if isinstance(v_, str):
                            cands.add(v_)
            vsep = next(iter(cands)) if len(cands) == 1 else None
    ps = chk.fn(TEXT + "parse_scs")
    splits = [callee_name(t["callee"]) for b, t in ps.calls()] if ps is not None else []
    ok = vsep is not None and len(vsep) >= 1 and all(c in " \t\n\r\x0c" for c in vsep) and "core::str::<impl str>::split_ascii_whitespace" in splits
    chk.ob("C07.c", "text-value-separator/ascii-whitespace", ok, ws.loc() if ws else "", "values are joined with %r and split with split_ascii_whitespace" % vsep)
    # the separator stands between *every* two values only if the formatter that places it sees all of them at once: one call, outside any
    # loop (formatting the slice piecewise and writing the pieces back to back glues the last value of a piece to the first of the next)
    if ws is not None and prog.fn(TEXT + "format_spectrum") is not None and prog.fn(TEXT + "format_spectrum") is not ws:
        fc_ = an.calls(ws, TEXT + "format_spectrum")
        looped_ = [ws.loc(b) for b, t in fc_ if ws.reaches(b, b)]
        chk.ob("C07.c", "text-values/formatted-in-one-piece", len(fc_) == 1 and not looped_, ws.loc(),
               "write_spectrum formats all values with one call of the formatter, outside any loop (calls: %d, inside a loop: %s)" % (len(fc_), looped_ or "none"))
    # newline after header and body: writeln!
    nl = 0
    seen_ = []
    for path in (TEXT + "Header::write", TEXT + "write_spectrum"):
        f = chk.fn(path)
        if f is None or any(f is g_ for g_ in seen_):
            # (the one-line Header::write merged into write_spectrum: both names resolve to one function, counted once)
            continue
        seen_.append(f)
        for b, p, phs, t in an.format_calls(f):
            if p and p[-1].endswith("\n"):
                nl += 1
    chk.ob("C07.c", "text/lines-end-in-newline", nl == 2, "", "header and body are written with writeln! (read_line + read_to_string on the other side); found %d newline-terminated formats" % nl)
    # numbers: Display of f64 with precision / f64::from_str
    fsn = chk.fn(TEXT + "format_spectrum")
    ok = False
    if fsn is not None:
        fcs = an.format_calls(fsn) + [x for c in prog.closures_of(fsn.path) for x in an.format_calls(c)]
        if prog.fn(TEXT + "write_spectrum") is fsn:
            # merged into write_spectrum: the value sites are the formats that take a precision (the line itself is `{}` + newline)
            fcs = [x for x in fcs if x[2] and x[2][0]["precision"] is not None]
        shape_ok = all(len(phs) == 1 and phs[0]["precision"] is not None and phs[0]["precision"][1] for b, p, phs, t in fcs) and all(p == ["", ""] for b, p, phs, t in fcs)
        ok = len(fcs) == 2 and shape_ok
        if ok and prog.fn(TEXT + "write_spectrum") is fsn:
            # merged (or inlined by canon.py) into write_spectrum: the value that goes without a separator in front is formatted once - its
            # site lies outside every loop of the function (formatting piece by piece puts a separator-less value at the head of every piece)
            direct_ = [b for b, p, phs, t in an.format_calls(fsn) if phs and phs[0]["precision"] is not None]
            once_ = [b for b in direct_ if not fsn.reaches(b, b)]
            chk.ob("C07.c", "text-values/formatted-in-one-piece", bool(once_), fsn.loc(),
                   "the separator-less first value is formatted outside any loop of write_spectrum (precision sites in the function: %d, outside loops: %d)" % (len(direct_), len(once_)))
        if len(fcs) == 1 and shape_ok:
            # one site for all values: a loop over the whole slice that formats its element on every turn (the separator goes in between)
            ok = _single_format_site_covers_all(prog, fsn, fcs[0][0])
    chk.ob("C07.c", "text-values/printed-with-requested-precision", ok, fsn.loc() if fsn else "", "every value is printed as `{x:.precision$}` with nothing around it (first and following values alike)")
    # ... and it is the stored value that is printed: the formatter computes nothing on f64 (no rounding, clamping, flushing to zero, rescaling)
    if fsn is not None:
        comp = float_computation_in(prog, [fsn] + prog.closures_of(fsn.path))
        chk.ob("C07.c", "text-values/printed-as-stored(no-float-computation-in-the-formatter)", not comp, fsn.loc(),
               "between the stored f64 and `{x:.precision$}` nothing is computed on it (found: %s)" % (comp or "nothing"))


def _single_format_site_covers_all(prog, f, fmt_bb):
    """the block fmt_bb lies in a `for` loop of f over the whole value slice (iter / enumerate only), is passed on every turn and no turn is skipped"""
    import iters as IT
    for it in IT.iterations(prog, f):
        if it.kind != "loop" or it.parent is not f or fmt_bb not in it.blocks:
            continue
        names = [n for n in IT.chain_names(it.chain()) if n not in ("as_slice", "inner")]
        src = it.chain()[-1][1]
        whole = sorted(names) in (["iter"], ["enumerate", "iter"]) and src is not None and src[0] == 1
        # every path from the body's entry back to the loop header passes the format call
        back = f.reachable_from(it.some_t, avoid={fmt_bb, it.bb}) if it.some_t is not None else set()
        bypass = any(it.bb in f.succ.get(b, []) for b in back | {it.some_t}) if it.some_t != fmt_bb else False
        return whole and not it.early_exits() and not bypass
    return False


def c07f(chk):
    """the requested precision reaches the format spec unmodified"""
    prog = chk.prog
    fs = chk.fn(TEXT + "format_spectrum")
    ws = chk.fn(TEXT + "write_spectrum")
    bw = chk.fn(WRITE_BUILDER_WRITE)
    if fs is not None:
        bodies = [fs] + prog.closures_of(fs.path)
        n = 0
        bad = []
        for g in bodies:
            for b, t in g.calls():
                if (t["callee"].get("path") or "") == "core::fmt::rt::Argument::<'_>::from_usize":
                    n += 1
                    sl, info = g.slice_locals(t["args"][0], through_calls=False)
                    if info["binops"] or info["calls"]:
                        bad.append(g.loc(b))
                    # root: parameter 3 of format_spectrum (or the closure's capture of it); when the formatter was merged into
                    # write_spectrum, that function's own precision parameter (3 as well: writer, spectrum, precision)
                    if g is fs:
                        if 3 not in sl and not (fs is ws and any(an.origin_local(fs, x) == 3 for x in sl)):
                            bad.append(g.loc(b) + " (not the precision parameter)")
                    else:
                        caps = an.closure_captures(fs, g.path) or []
                        if not any(c is not None and (c[0] == 3 or (fs is ws and an.origin_local(fs, c[0]) == 3)) for c in caps):
                            bad.append(g.loc(b) + " (closure does not capture the precision parameter)")
        chk.ob("C07.f", "format_spectrum/precision-argument-is-the-parameter", n in (1, 2) and not bad, fs.loc(), "`{x:.precision$}` takes its precision from the function's parameter, unmodified, at both sites (%d sites, problems %s)" % (n, bad))
    if ws is not None:
        cs = an.calls(ws, TEXT + "format_spectrum")
        ok = len(cs) == 1 and op_local(cs[0][1]["args"][2]) is not None and ws.copy_root(op_local(cs[0][1]["args"][2])) == 3 and not [rv for _, _, _, rv, _ in ws.assigns() if rv["k"] == "binop"]
        if not cs and fs is ws:
            # merged: there is no call to forward to; the rule above already traced the format argument to this function's parameter
            ok = not [rv for _, _, _, rv, _ in ws.assigns() if rv["k"] == "binop" and rv["op"] not in ("Eq", "Ne", "Lt", "Le", "Gt", "Ge")]
        others = [callee_name(t["callee"]) for b, t in ws.calls() if "min" in callee_name(t["callee"]).split("::")[-1] or "clamp" in callee_name(t["callee"]) or "max" == callee_name(t["callee"]).split("::")[-1]]
        chk.ob("C07.f", "write_spectrum/precision-forwarded", ok and not others, ws.loc(), "write_spectrum forwards its precision parameter to format_spectrum unmodified (clamping calls: %s)" % others)
    if bw is not None:
        cs = an.calls(bw, TEXT + "write_spectrum")
        ok = False
        if len(cs) == 1:
            sl, info = bw.slice_locals(cs[0][1]["args"][2], through_calls=False)
            ok = ("sfs_core::spectrum::io::write::Builder", "precision") in info["fields"] and not info["binops"]
        chk.ob("C07.f", "write::Builder::write/precision-field-forwarded", ok, bw.loc(), "the builder hands its precision field to the text writer unmodified")
    sp = chk.fn("sfs_core::spectrum::io::write::Builder::set_precision")
    if sp is not None:
        ok = False
        for b, i, p, rv, s in sp.assigns():
            cp = sp.canon(p)
            if an.owned_self_field(cp) == "precision" and rv["k"] == "use" and op_local(rv["op"]) is not None and sp.copy_root(op_local(rv["op"])) == 2:
                ok = True
        chk.ob("C07.f", "set_precision/stores-argument", ok and not list(sp.calls()), sp.loc(), "set_precision stores its argument")
    for path, fld in (("sfs::view::View::run", "precision"), ("sfs::fold::Fold::run", "precision")):
        f = chk.fn(path)
        if f is None:
            continue
        cs = an.calls(f, "sfs_core::spectrum::io::write::Builder::set_precision")
        ok = False
        if len(cs) == 1:
            sl, info = f.slice_locals(cs[0][1]["args"][1], through_calls=False)
            ok = any(fl == fld for (a_, fl) in info["fields"]) and not info["binops"]
        chk.ob("C07.f", "%s/--precision->set_precision" % path.split("::")[-2], ok, f.loc(), "the CLI option is handed to the writer unmodified")


def c07d(chk):
    prog = chk.prog
    adt = prog.adts.get(IOFMT)
    variants = [v["name"] for v in adt["variants"]] if adt else []
    det = chk.fn(IOFMT + "::detect")
    if det is not None:
        called = sorted(callee_name(t["callee"]).split("::")[-1] for b, t in det.calls() if callee_name(t["callee"]).startswith(IOFMT + "::detect_"))
        made = {}
        for v in called:
            g = chk.fn(IOFMT + "::" + v)
            if g is not None:
                for b, i, p, rv, s in g.assigns():
                    if rv["k"] == "aggregate" and rv.get("adt") == IOFMT:
                        made[v] = rv["variant"]
                for b, t in g.calls():
                    for a in t["args"]:
                        c = an.const_of(g, a)
                        if c is not None and c.get("ty") == IOFMT:
                            made[v] = c.get("disp", "").split("::")[-1]
        chk.ob("C07.d", "Format::detect/one-detector-per-variant", sorted(made.values()) == sorted(variants) and len(called) == len(variants), det.loc(),
               "Format variants %s; detectors %s" % (variants, made))
    w = chk.fn(WRITE_BUILDER_WRITE)
    if w is not None:
        table, sb = an.enum_match_table(w, lambda s: s.get("adt") == IOFMT)
        arms = {}
        if table:
            for v, tgt in table.items():
                cs = [callee_name(f_t["callee"]) for b in sorted({tgt} | an.arm_region(w, sb, tgt)) for f_t in [w.term(b)] if f_t["k"] == "call"]
                arms[v] = cs
        ok = table is not None and sorted(arms) == sorted(variants) and arms.get("Text") == [TEXT + "write_spectrum"] and arms.get("Npy") == ["sfs_core::array::Array::<f64>::write_npy"]
        chk.ob("C07.d", "write::Builder::write/one-arm-per-variant", ok, w.loc(), "writer arms %s" % arms)
    r = chk.fn(READ_BUILDER_READ)
    if r is not None:
        # match format { Some(Text) => text::read_scs, Some(Npy) => read_npy, None => Err }
        cs = sorted({callee_name(t["callee"]) for b, t in r.calls() if callee_name(t["callee"]) in (TEXT + "read_scs", "sfs_core::array::Array::<f64>::read_npy")})
        chk.ob("C07.d", "read::Builder::read/one-reader-per-variant", len(cs) == len(variants) == 2, r.loc(), "readers %s" % cs)
        # each reader under its own variant of the detected format
        ok = True
        for sb, st in r.switches():
            s = an.switch_subject(r, sb)
        chk.ob("C07.d", "detectors/compare-prefix-with-own-constant", _detector_consts(chk), "", "detect_npy compares with npy::MAGIC, detect_plain_text with text::START")


def _detector_consts(chk):
    ok = True
    for fn_, item in ((IOFMT + "::detect_npy", NPY + "MAGIC"), (IOFMT + "::detect_plain_text", TEXT + "START")):
        f = chk.fn(fn_)
        if f is None:
            return False
        found = uses_item(f, item)
        ok = ok and found
    return ok


def c07e(chk):
    for path in ("sfs::view::View::run", "sfs::fold::Fold::run", "sfs::stat::Stat::run"):
        f = chk.fn(path)
        if f is None:
            continue
        sf = an.calls(f, "sfs_core::spectrum::io::read::Builder::set_format")
        rd = an.calls(f, READ_BUILDER_READ)
        chk.ob("C07.e", "%s/auto-detect" % path.split("::")[-2], len(rd) == 1 and not sf, f.loc(), "reads with read::Builder::read() and never pins the format (set_format calls: %d)" % len(sf))
    r = chk.fn(READ_BUILDER_READ)
    if r is not None:
        rte = an.calls(r, "std::io::Read::read_to_end")
        det = [(b, t) for b, t in r.calls() if callee_is(t["callee"], IOFMT + "::detect")] + [(c, bt[0], bt[1]) for c in chk.prog.closures_of(READ_BUILDER_READ) for bt in an.calls(c, IOFMT + "::detect")]
        # detection and parsing use the buffer filled by read_to_end, whole slice (RangeFull)
        raw = None
        for b, t in rte:
            tgt = an.arg_pointee(r, t, 1)
            if tgt:
                raw = tgt[0]
        same = raw is not None and all((an.arg_pointee(r, t, 1) or (None,))[0] == raw for b, t in rte)
        # the buffer may be handed on by value (returned from a helper as Ok(raw) and unwrapped with `?`): every local the same
        # vector is moved into counts as the buffer
        aliases = {l for l in range(len(r.locals)) if raw is not None and an.origin_local(r, l) == raw} | ({raw} if raw is not None else set())
        # the readers get (a view of) that whole buffer: `&raw[..]` or `&raw` coerced to a slice
        fed = []
        for b, t in r.calls():
            if callee_is(t["callee"], TEXT + "read_scs", "sfs_core::array::Array::<f64>::read_npy"):
                sl_, info_ = r.slice_locals(t["args"][0])
                fed.append(bool(aliases & sl_))
        chk.ob("C07.e", "read::Builder::read/whole-input-then-detect", len(rte) == 2 and same and bool(det) and len(fed) == 2 and all(fed), r.loc(),
               "both transports read_to_end into one buffer; detection and both readers see that complete buffer (readers fed by it: %s)" % fed)
        # nothing else touches the buffer between reading and parsing (no trimming, truncation, sub-slicing)
        # (views of the whole vector: `raw.as_slice()`, `raw.as_ref()` are `&raw[..]`)
        WHOLE_VIEWS = ("alloc::vec::Vec::<T, A>::as_slice", "<alloc::vec::Vec<T, A> as core::convert::AsRef<[T]>>::as_ref", "<alloc::vec::Vec<T, A> as core::borrow::Borrow<[T]>>::borrow")
        touch = []
        if raw is not None:
            for b, t in r.calls():
                for a in t["args"]:
                    l = op_local(a)
                    tgt = r.resolve_ptr(l) if l is not None else None
                    if (tgt is not None and tgt[0] in aliases) or (l is not None and r.copy_root(l) in aliases):
                        nm = callee_name(t["callee"])
                        if callee_is(t["callee"], "std::io::Read::read_to_end", "core::ops::try_trait::Try::branch"):
                            continue
                        if callee_is(t["callee"], N.INDEX) and "RangeFull" in " ".join(t["callee"].get("args", [])):
                            continue
                        if callee_is(t["callee"], N.DEREF) or nm in WHOLE_VIEWS:
                            continue
                        touch.append(nm)
        # and the slices handed to the readers / the detector derive from the buffer through deref / [..] / reborrows only
        ALLOWED = WHOLE_VIEWS + ("std::io::Read::read_to_end", "core::ops::deref::Deref::deref", "core::ops::index::Index::index", "std::io::stdio::Stdin::lock", "std::io::stdio::stdin",
                   "sfs_core::input::Input::open", "core::option::Option::<T>::unwrap_or", "core::ops::try_trait::Try::branch", "alloc::vec::Vec::<T>::new",
                   "core::ops::try_trait::FromResidual::from_residual")
        for b, t in r.calls():
            if callee_is(t["callee"], TEXT + "read_scs", "sfs_core::array::Array::<f64>::read_npy"):
                sl, info = r.slice_locals(t["args"][0])
                for _, c in info["calls"]:
                    if not callee_is(c["callee"], *ALLOWED):
                        touch.append("%s feeds %s" % (callee_name(c["callee"]), callee_name(t["callee"]).split("::")[-1]))
        for c in chk.prog.closures_of(READ_BUILDER_READ):
            for b, t in c.calls():
                if callee_is(t["callee"], IOFMT + "::detect"):
                    sl, info = c.slice_locals(t["args"][0])
                    extra = [callee_name(x[1]["callee"]) for x in info["calls"] if not callee_is(x[1]["callee"], *ALLOWED)]
                    caps = an.closure_captures(r, c.path) or []
                    if extra or not any(cp is not None and cp[0] in aliases for cp in caps):
                        touch.append("detect sees %s (captures %s)" % (extra, caps))
        chk.ob("C07.e", "read::Builder::read/buffer-untouched-before-parsing", not touch, r.loc(),
               "the bytes read are handed to detection and to the reader as they are; other operations on the buffer: %s" % sorted(set(touch)))


# ====================================================================================
# C16
# ====================================================================================
ARRAY_NEW = "sfs_core::array::Array::<T>::new"
ARRAY_NEW_UNCHECKED = "sfs_core::array::Array::<T>::new_unchecked"
READ_ENTRIES = [READ_ARRAY, TEXT + "read_scs", TEXT + "parse_scs", READ_BUILDER_READ]
IO_READ_METHODS = ("std::io::Read::", "std::io::BufRead::")


def check_C16(chk):
    chk.explanation = (
        "Structural clauses of C16: (a) everything reachable from npy::read_array touches the reader only through read_exact and fill_buf "
        "(a short read is an error, never accepted); (b) the value loop of TypeDescriptor::read can only be left through the `fill_buf()? is "
        "empty` edge or a `?` error edge, so every trailing byte becomes (part of) a value and is counted; (c) on every read path the array is "
        "built by the checked constructor Array::new, whose Ok is constructed only when data.len() == shape.elements(); unchecked constructors "
        "are unreachable from the read entry points except inside Array::new; (d) the text parser collects the whole token iterator before the "
        "shape check; (e) in view/fold/stat the read dominates the writer and nothing fallible follows it, and main exits non-zero on Err.")
    chk.not_decided = "which malformed *headers* nom rejects; wrap-around of the shape product on absurd shapes (reported under C17)"
    c16a(chk)
    c16b(chk)
    c16c(chk)
    c16d(chk)
    c16e(chk)
    # shared clause: a damaged file can only be recognised if the reader sees the file's bytes as they are (C07.e)
    chk.borrow(lambda: c07e(chk), "C16.f", 2)
    for r, n in (("C16.a", 4), ("C16.b", 3), ("C16.c", 5), ("C16.d", 2), ("C16.e", 10)):
        chk.floor(r, n)


def c16a(chk):
    prog = chk.prog
    reach, parent = prog.reachable([READ_ARRAY])
    n = 0
    allowed = {"std::io::Read::read_exact", "std::io::BufRead::fill_buf"}
    seen = {}
    for p in sorted(reach):
        f = prog.fn(p)
        if f is None:
            continue
        chk.fns_analysed.add(p)
        for b, t in f.calls():
            cp = t["callee"].get("path") or ""
            if cp.startswith(IO_READ_METHODS):
                n += 1
                chk.saw_calls()
                seen[cp] = seen.get(cp, 0) + 1
                if cp not in allowed:
                    chk.ob("C16.a", "npy-read-path/%s@%s" % (cp.split("::")[-1], p.split("npy::")[-1]), False, f.loc(b),
                           "`%s` on the npy read path can accept short data; only read_exact / fill_buf are allowed" % cp)
    for cp in sorted(seen):
        chk.ob("C16.a", "npy-read-path/uses/%s" % cp.split("::")[-1], cp in allowed, "", "%d call site(s) reachable from read_array" % seen[cp])
    chk.ob("C16.a", "npy-read-path/read_exact-count", seen.get("std::io::Read::read_exact", 0) >= 24, "", "read_exact call sites on the npy read path: %d (magic, version, 2 length fields, dict, 20 decoders)" % seen.get("std::io::Read::read_exact", 0))
    # every read_exact result is `?`-propagated
    bad = []
    for p in sorted(reach):
        f = prog.fn(p)
        if f is None:
            continue
        for b, t in f.calls():
            if callee_is(t["callee"], "std::io::Read::read_exact") and an.try_branch_of(f, b) is None:
                bad.append(f.loc(b))
    chk.ob("C16.a", "npy-read-path/read_exact-errors-propagate", not bad, "", "read_exact results not passed to `?`: %s" % bad)


def loop_blocks(f, b):
    """blocks on a cycle through b"""
    return {x for x in f.reachable_from(b) if b in f.reachable_from(x) and (x != b or f.reaches(b, b))}


def c16b(chk):
    f = chk.fn(TD_READ)
    if f is None:
        return
    fb = an.calls(f, "std::io::BufRead::fill_buf")
    if len(fb) != 1:
        chk.fail("C16.b", "TypeDescriptor::read/fill_buf", f.loc(), "expected one fill_buf call")
        return
    L = loop_blocks(f, fb[0][0])
    chk.ob("C16.b", "TypeDescriptor::read/loop-found", bool(L), f.loc(), "value loop around fill_buf")
    if not L:
        return
    # classify exits
    tb = an.try_branch_of(f, fb[0][0])
    ie = None
    for b, t in f.calls():
        if callee_is(t["callee"], N.SLICE_IS_EMPTY) and b in L:
            sl, info = f.slice_locals(t["args"][0])
            if any(x[0] == fb[0][0] for x in info["calls"]):
                sw = an.switches_on_call_result(f, b)
                if sw:
                    ie = (sw[0][0], f.term(sw[0][0])["otherwise"])
    exits = []
    for x in sorted(L):
        for s in f.succ.get(x, []):
            if s not in L:
                if f.term(s)["k"] == "unreachable":
                    continue
                kind = "other"
                if ie and x == ie[0] and s == ie[1]:
                    kind = "eof"
                else:
                    t = f.term(x)
                    if t["k"] == "switch":
                        subj = an.switch_subject(f, x)
                        if subj["kind"] == "discr" and "ControlFlow" in (subj.get("ty") or "") and s == an.edge_target(t, 1):
                            kind = "error"
                exits.append((x, s, kind))
    others = [(f.loc(x), kind) for x, s, kind in exits if kind == "other"]
    chk.ob("C16.b", "TypeDescriptor::read/exits=eof-or-error", not others and any(k == "eof" for _, _, k in exits) and sum(1 for _, _, k in exits if k == "error") >= 2, f.loc(),
           "the loop may only end when fill_buf()? is empty or on an I/O error (exits: %s)" % [(f.loc(x), k) for x, s, k in exits])
    # every iteration pushes the decoded value; eof edge returns Ok(values)
    push = [b for b, t in f.calls() if callee_is(t["callee"], N.VEC_PUSH) and b in L]
    chk.ob("C16.b", "TypeDescriptor::read/every-iteration-pushes", len(push) == 1 and RC.exactly_once_on_paths(f, f.term(ie[0])["arms"][0][1] if ie else None, fb[0][0], push)[0] if ie else False, f.loc(),
           "each non-empty iteration decodes one value (`?`) and pushes it")


def c16c(chk):
    prog = chk.prog
    reach, parent = prog.reachable(READ_ENTRIES)
    bad = []
    for p in sorted(reach):
        f = prog.fn(p)
        if f is None:
            continue
        for b, t in f.calls():
            c = t["callee"]
            if callee_is(c, ARRAY_NEW_UNCHECKED) and p != ARRAY_NEW:
                bad.append(("new_unchecked", p, f.loc(b)))
            if callee_is(c, "sfs_core::array::Array::<T>::from_element", "sfs_core::spectrum::Spectrum::<sfs_core::spectrum::Counts>::from_vec", "sfs_core::array::Array::<f64>::from_zeros", "sfs_core::spectrum::Spectrum::<sfs_core::spectrum::Counts>::from_zeros"):
                bad.append((callee_name(c).split("::")[-1], p, f.loc(b)))
    chk.ob("C16.c", "read-paths/no-unchecked-constructor", not bad, "", "unchecked array constructors reachable from the read entry points: %s" % bad)
    ra = chk.fn(READ_ARRAY)
    if ra is not None:
        cs = an.calls(ra, ARRAY_NEW)
        ok = len(cs) == 1
        if ok:
            # data argument is the vector returned by TypeDescriptor::read, shape from the header dict
            sl, info = ra.slice_locals(cs[0][1]["args"][0])
            from_read = any(callee_is(x[1]["callee"], TD_READ) for x in info["calls"])
            sl2, info2 = ra.slice_locals(cs[0][1]["args"][1])
            from_dict = (H + "HeaderDict", "shape") in info2["fields"]
            ok = from_read and from_dict
        chk.ob("C16.c", "read_array/Array::new(values, declared-shape)", ok, ra.loc(), "the decoded values and the declared shape go through the checked constructor")
    ps = chk.fn(TEXT + "parse_scs")
    if ps is not None or True:
        unit_ = ([ps] + prog.closures_of(ps.path)) if ps is not None else []
        ok = sum(len(an.calls(c, "sfs_core::spectrum::Spectrum::<sfs_core::spectrum::Counts>::new")) for c in unit_) == 1
        chk.ob("C16.c", "parse_scs/Scs::new(values, declared-shape)", ok, ps.loc() if ps else "", "text values and the header's shape go through the checked constructor")
    sn = chk.fn("sfs_core::spectrum::Spectrum::<sfs_core::spectrum::Counts>::new")
    if sn is not None:
        chk.ob("C16.c", "Scs::new=Array::new", len(an.calls(sn, ARRAY_NEW)) == 1, sn.loc(), "Scs::new delegates to Array::new")
    an_ = chk.fn(ARRAY_NEW)
    if an_ is not None:
        oks = [b for b, i, p, rv, s in an_.assigns() if rv["k"] == "aggregate" and rv.get("variant") == "Ok" and p[0] == 0]
        good = False
        for sb, st in an_.switches():
            s = an.switch_subject(an_, sb)
            if s["kind"] == "value" and s["root"] is not None:
                d = an_.single_def(s["root"])
                if d and d[0] == "assign" and d[3]["k"] == "binop" and d[3]["op"] == "Eq":
                    names = set()
                    for side in ("l", "r"):
                        l = op_local(d[3][side])
                        dd = an_.single_def(an_.copy_root(l)) if l is not None else None
                        if dd and dd[0] == "call":
                            names.add(callee_name(dd[2]["callee"]))
                    if names == {"alloc::vec::Vec::<T, A>::len", "sfs_core::array::shape::Shape::elements"}:
                        good = bool(oks) and all(an.dominated_by_edge(an_, sb, st["otherwise"], b) for b in oks)
                if d and d[0] == "assign" and d[3]["k"] == "binop" and d[3]["op"] == "Ne":
                    names = set()
                    for side in ("l", "r"):
                        l = op_local(d[3][side])
                        dd = an_.single_def(an_.copy_root(l)) if l is not None else None
                        if dd and dd[0] == "call":
                            names.add(callee_name(dd[2]["callee"]))
                    if names == {"alloc::vec::Vec::<T, A>::len", "sfs_core::array::shape::Shape::elements"}:
                        good = bool(oks) and all(an.dominated_by_edge(an_, sb, an.edge_target(st, 0), b) for b in oks)
        chk.ob("C16.c", "Array::new/Ok<=len==elements", good, an_.loc(), "Ok(..) is constructed only on the true edge of data.len() == shape.elements()")
    se = chk.fn("sfs_core::array::shape::Shape::elements")
    if se is not None:
        ok = False
        for b, t in se.calls():
            if callee_is(t["callee"], "core::iter::traits::iterator::Iterator::product"):
                sl, info = se.slice_locals(t["args"][0])
                adapt = [(x[1]["callee"].get("path") or "").split("::")[-1] for x in info["calls"]]
                ok = sorted(adapt) == ["deref", "iter"]
        chk.ob("C16.c", "Shape::elements=product-of-all-axes", ok, se.loc(), "elements() multiplies every axis length (no skip/take)")


def _c16d_loop_form(chk, prog, ps):
    import iters as IT
    its = [it for it in IT.iterations(prog, ps) if it.kind == "loop" and it.parent is ps and IT.chain_names(it.chain()) == ["split_ascii_whitespace"]]
    news = [(b, t) for b, t in ps.calls() if "spectrum::Spectrum::<" in callee_name(t["callee"]) and callee_name(t["callee"]).endswith(">::new")]
    if len(its) != 1 or len(news) != 1:
        return None
    it = its[0]
    nb, nt = news[0]
    parses = [(b, t) for b, t in it.calls() if (t["callee"].get("path") or "") in ("core::str::traits::FromStr::from_str", "core::str::<impl str>::parse")
              and "f64" in (callee_name(t["callee"]) + " ".join(t["callee"].get("args", [])) + (t.get("dest_ty") or ""))]
    pushes = [(b, t) for b, t in it.calls() if callee_name(t["callee"]).split("::")[-1] == "push" and len(t["args"]) == 2]
    how = "for-loop over %s: " % IT.chain_names(it.chain())
    if len(parses) != 1 or len(pushes) != 1:
        return False, how + "expected one parse and one push per token (found %d / %d)" % (len(parses), len(pushes)), it.chain()[-1][1]
    pb, pt = parses[0]
    qb, qt = pushes[0]
    oc = an.option_outcomes(ps, pb)
    if oc is None:
        return False, how + "the outcome of the parse is not told apart", it.chain()[-1][1]
    sb, good, bad = oc
    token = it.elem_path(pt["args"][0]) == ()
    vec = an.arg_pointee(ps, qt, 0)
    value = an.call_dest_local(pt) in ps.slice_locals(qt["args"][1], through_calls=False)[0]
    pushed_on_ok = an.dominated_by_edge(ps, sb, good, qb)
    after_bad = ps.reachable_from(bad)
    fails = it.bb not in after_bad and it.switch_bb not in after_bad and nb not in after_bad
    only_exit = all(b_ in after_bad or b_ == sb for b_, s_ in it.early_exits())
    no_skip = [x for x, _ in it.switches()] == [sb]
    built = vec is not None and not vec[1] and vec[0] in ps.slice_locals(nt["args"][0])[0] and an.dominated_by_edge(ps, it.switch_bb, it.none_t, nb)
    ok = token and value and pushed_on_ok and fails and only_exit and no_skip and built
    how += "parses the token=%s, pushes the parsed value=%s on the Ok edge=%s, a bad token leaves without building the spectrum=%s, no other exit=%s, no token skipped=%s, the vector is what Scs::new gets after the last token=%s" % (
        token, value, pushed_on_ok, fails, only_exit, no_skip, built)
    chk.fns_analysed.add(ps.path)
    return ok, how, it.chain()[-1][1]


def c16d(chk):
    import iters as IT
    prog = chk.prog
    ps = chk.fn(TEXT + "parse_scs")        # (the function it was merged into, when it no longer exists on its own)
    if ps is None:
        return
    coll = [(b, t) for b, t in ps.calls() if callee_is(t["callee"], N.COLLECT) and "alloc::vec::Vec<f64>" in " ".join(t["callee"].get("args", []))]
    ok = False
    adapt = None
    src = None
    if len(coll) == 1:
        ch = IT.receiver_chain(ps, coll[0][1]["args"][0])
        adapt = IT.chain_names(ch)
        src = ch[-1][1]
        ty = " ".join(coll[0][1]["callee"].get("args", []))
        ok = adapt == ["map", "split_ascii_whitespace"] and "core::result::Result<alloc::vec::Vec<f64>" in ty
    if not coll:
        # the same as a loop: for token in s.split_ascii_whitespace() { match f64::from_str(token) { Ok(v) => values.push(v), Err(e) => return Err(..) } }
        # followed by Scs::new(values, shape)
        r_ = _c16d_loop_form(chk, prog, ps)
        if r_ is not None:
            ok, adapt, src = r_
    chk.ob("C16.d", "parse_scs/all-tokens-collected", ok, ps.loc(), "every whitespace-separated token is parsed and collected (adaptors %s); a bad token fails the whole read" % (adapt,))
    rs = chk.fn(TEXT + "read_scs")
    if rs is not None:
        r2s = an.calls(rs, "std::io::Read::read_to_string")
        ok = len(r2s) == 1 and an.try_branch_of(rs, r2s[0][0]) is not None
        buf = an.arg_pointee(rs, r2s[0][1], 1) if len(r2s) == 1 else None
        parsed = False
        if ok and buf is not None:
            pc = an.calls(rs, TEXT + "parse_scs")
            if len(pc) == 1 and rs is not ps:
                tgt = an.arg_pointee(rs, pc[0][1], 0)
                d0 = None
                if tgt is None:
                    sl, info = rs.slice_locals(pc[0][1]["args"][0])
                    parsed = buf[0] in sl
                else:
                    parsed = tgt[0] == buf[0] or buf[0] in rs.slice_locals(pc[0][1]["args"][0])[0]
            elif rs is ps and src is not None:
                # the parser was merged into read_scs: the tokens are split off the buffer that was read
                parsed = src[0] == buf[0] or buf[0] in rs.slice_locals(src[0])[0]
        chk.ob("C16.d", "read_scs/whole-body-read", ok and parsed, rs.loc(), "the body is read to the end (read_to_string?) and that buffer is what is parsed (read to the end and propagated=%s, parsed buffer is the one read=%s)" % (ok, parsed))


def c16e(chk):
    RC.no_partial_output(chk, "C16.e", "sfs::view::View::run", READ_BUILDER_READ, [RC.WRITE_PATH_OR_STDOUT])
    RC.no_partial_output(chk, "C16.e", "sfs::fold::Fold::run", READ_BUILDER_READ, [RC.WRITE_PATH_OR_STDOUT])
    # stat: the runner (stdout lock + rows) is created and run after read()?
    f = chk.fn("sfs::stat::Stat::run")
    if f is not None:
        rd = an.calls(f, READ_BUILDER_READ)
        nw = an.calls(f, "sfs::stat::runner::Runner::<std::io::stdio::StdoutLock<'static>>::new")
        rn = [(b, t) for b, t in f.calls() if (t["callee"].get("path") or "") == "sfs::stat::runner::Runner::<W>::run"]
        ok = False
        if len(rd) == 1 and len(nw) == 1 and len(rn) == 1:
            tb = an.try_branch_of(f, rd[0][0])
            ok = tb is not None and an.dominated_by_edge(f, tb[1], tb[2], nw[0][0]) and an.dominated_by_edge(f, tb[1], tb[2], rn[0][0])
        chk.ob("C16.e", "Stat::run/rows-after-read-succeeded", ok, f.loc(), "the statistics runner is created and run only on the success edge of read()?")
    # stat runner: every statistic is computed, and any failure leaves the function, before the row is written
    ws = chk.fn("sfs::stat::runner::Runner::<W>::write_statistics")
    if ws is not None:
        import iters as IT
        prog = chk.prog
        its = IT.iterations(prog, ws)
        unit = [ws] + prog.closures_of(ws.path)
        calc = [(g, b, t) for g in unit for b, t in an.calls(g, "sfs::stat::Statistic::calculate")]
        # the row write(s): every write in the function (the helper, or raw write!/writeln! when the helper was inlined) whose data derive
        # from the computed statistics; a header line written before them is not a row
        def fed_by_calculate(t_, through_mutation=False):
            for a_ in t_["args"][1:]:
                # (mutation is followed for the function's own values - a vector filled with push - not through `&mut self`,
                # which every method call on self would otherwise link to every other)
                sl_, info_ = ws.slice_locals(a_, mut_calls=(lambda l_: l_ > ws.argc) if through_mutation else False)
                names_ = [callee_name(x[1]["callee"]) for x in info_["calls"]]
                if any(n_.endswith("Statistic::calculate") for n_ in names_):
                    return True
                for x in info_["calls"]:
                    for a2_ in x[1]["args"]:
                        cp_ = an.closure_of_operand(ws, a2_)
                        g_ = prog.fn(cp_) if cp_ else None
                        if g_ is not None and an.calls(g_, "sfs::stat::Statistic::calculate"):
                            return True
            return False
        writes_all = [(b_, t_) for b_, t_ in ws.calls() if callee_is(t_["callee"], "sfs::stat::runner::Runner::<W>::write_with_delimiter") or callee_name(t_["callee"]).startswith("std::io::Write::")]
        wd = [x for x in writes_all if fed_by_calculate(x[1])]
        if not wd:
            # the values reach the write through a vector filled with push(..): follow mutation through `&mut v` as well
            wd = [x for x in writes_all if fed_by_calculate(x[1], through_mutation=True)]
        other_writes = [(g.path, callee_name(t["callee"])) for g in unit if g is not ws for b, t in g.calls() if callee_name(t["callee"]).startswith(("std::io::Write::", "std::io::stdio::"))]
        ok = False
        why = "expected one calculate call, one write_with_delimiter call and no other write"

        def outcomes_through_wrappers(g, cb):
            """success/failure outcome of a fallible call, also when the result first passes through map_err / context wrappers"""
            for _ in range(3):
                oc = an.option_outcomes(g, cb)
                if oc is not None:
                    return oc
                d = an.call_dest_local(g.term(cb))
                nxt = [b2 for b2, t2 in g.calls() if t2["args"] and op_local(t2["args"][0]) is not None and g.copy_root(op_local(t2["args"][0])) == d
                       and callee_name(t2["callee"]).split("::")[-1] in ("map_err", "context", "with_context", "map", "into")]
                if len(nxt) != 1:
                    return None
                cb = nxt[0]
            return None
        if len(calc) == 1 and len(wd) >= 1 and not other_writes:
            g, cb, ct = calc[0]
            wbs = [x[0] for x in wd]
            wb = wbs[0]
            chk.fns_analysed.add(g.path)
            inside = [it for it in its if it.body is g and cb in it.blocks]
            it = min(inside, key=lambda x: len(x.blocks)) if inside else None
            oc = outcomes_through_wrappers(g, cb)

            def returned_through_result_combinators(g, cb):
                """the call's Result is the closure's return value, possibly through Result::map / map_err (which keep an Err an Err)"""
                d = an.call_dest_local(g.term(cb))
                for _ in range(4):
                    if d == 0:
                        return True
                    nxt = [(b2, t2) for b2, t2 in g.calls() if t2["args"] and op_local(t2["args"][0]) is not None and g.copy_root(op_local(t2["args"][0])) == d
                           and (t2["callee"].get("path") or "") in ("core::result::Result::<T, E>::map", "core::result::Result::<T, E>::map_err")]
                    if len(nxt) != 1:
                        return False
                    d = an.call_dest_local(nxt[0][1])
                return d == 0
            if it is not None and oc is None and it.kind == "closure" and it.consumer == "map" and returned_through_result_combinators(g, cb):
                coll = [(b_, t_) for b_, t_ in ws.calls() if callee_is(t_["callee"], N.COLLECT) and IT.chain_get(IT.receiver_chain(ws, t_["args"][0]), "map") is it.term]
                col_ok = False
                if len(coll) == 1:
                    ch = IT.receiver_chain(ws, coll[0][1]["args"][0])
                    through = IT.chain_get(ch, "map") is it.term and IT.chain_names(ch) == ["map", "iter"]
                    oc2 = an.option_outcomes(ws, coll[0][0])
                    col_ok = through and oc2 is not None and all(an.dominated_by_edge(ws, oc2[0], oc2[1], w_) for w_ in wbs) and \
                        "core::result::Result<alloc::vec::Vec<" in " ".join(coll[0][1]["callee"].get("args", []))
                ok = col_ok
                why = "%s: the closure returns calculate(..) through Result::map / map_err (an Err stays an Err), collected as Result<Vec<_>, _> whose success edge dominates the write=%s" % (it.describe(), col_ok)
            elif it is None or oc is None:
                why = "calculate is not inside a recognised per-statistic iteration, or its outcome is not told apart"
            elif it.kind == "loop":
                sb, good, bad = oc
                # a failing statistic leaves without reaching the write; the write follows the exhausted loop
                after_bad = ws.reachable_from(bad)
                ok = all(w_ not in after_bad and w_ not in it.loop_blocks and an.dominated_by_edge(ws, it.switch_bb, it.none_t, w_) for w_ in wbs) and \
                    sorted(n_ for n_ in IT.chain_names(it.chain()) if n_ not in ("into_iter", "deref", "as_slice")) in ([], ["iter"])
                why = "%s: failure leaves without writing=%s, write only after the last statistic=%s" % (it.describe(), all(w_ not in after_bad for w_ in wbs), all(an.dominated_by_edge(ws, it.switch_bb, it.none_t, w_) for w_ in wbs))
            else:
                # closure returning Result, collected into Result<Vec<_>, _> whose success edge dominates the write
                sb, good, bad = oc
                after_bad = g.reachable_from(bad)
                ok_aggs = [b_ for b_, i_, p_, rv, s_ in g.assigns() if p_[0] == 0 and rv["k"] == "aggregate" and rv.get("variant") == "Ok"]
                err_kept = bool(ok_aggs) and not any(b_ in after_bad for b_ in ok_aggs)
                coll = [(b_, t_) for b_, t_ in ws.calls() if callee_is(t_["callee"], N.COLLECT) and IT.chain_get(IT.receiver_chain(ws, t_["args"][0]), "map") is it.term]
                col_ok = False
                if len(coll) == 1 and it.consumer == "map":
                    ch = IT.receiver_chain(ws, coll[0][1]["args"][0])
                    through = IT.chain_get(ch, "map") is it.term and IT.chain_names(ch) == ["map", "iter"]
                    oc2 = an.option_outcomes(ws, coll[0][0])
                    col_ok = through and oc2 is not None and all(an.dominated_by_edge(ws, oc2[0], oc2[1], w_) for w_ in wbs) and \
                        "core::result::Result<alloc::vec::Vec<" in " ".join(coll[0][1]["callee"].get("args", []))
                ok = err_kept and col_ok
                why = "%s: a failing statistic yields Err=%s, collected as Result<Vec<_>, _> whose success edge dominates the write=%s" % (it.describe(), err_kept, col_ok)
        chk.ob("C16.e", "stat::Runner::write_statistics/compute-all-then-write", ok, ws.loc(), "a failing statistic prevents the whole row (%s)" % why)
    RC.who_may_write(chk, "C16.e")
    RC.exit_status(chk, "C16.e")


# ====================================================================================
# C18
# ====================================================================================
SHORT_COUNT = ("std::io::Read::read", "std::io::Read::read_vectored", "std::io::Read::read_buf", "std::io::Write::write",
               "std::io::Write::write_vectored", "std::io::BufRead::consume", "std::io::Read::bytes", "std::io::Read::take", "std::io::Read::chain")
LOOPING_IO = ("std::io::Read::read_exact", "std::io::Read::read_to_end", "std::io::Read::read_to_string", "std::io::BufRead::read_line",
              "std::io::Write::write_all", "std::io::Write::write_fmt", "std::io::BufRead::fill_buf", "std::io::Write::flush")
DISCARDING = ("core::result::Result::<T, E>::ok", "core::result::Result::<T, E>::is_ok", "core::result::Result::<T, E>::is_err", "core::result::Result::<T, E>::err",
              "core::result::Result::<T, E>::unwrap_or", "core::result::Result::<T, E>::unwrap_or_else", "core::result::Result::<T, E>::unwrap_or_default")


def buffered_input_capacity(chk, rule):
    """Every BufReader the workspace creates has room for at least one byte.  The readers find the end of input, and the builders the
    container and format, by looking at what fill_buf() returns; a BufReader of capacity 0 always returns an empty slice, so an input that
    gets one reads as empty.  `BufReader::new` has a fixed non-zero capacity; `with_capacity(c, ..)` must get a non-zero constant (a
    capacity computed from the file - its length, say - is 0 for a FIFO, a character device or /dev/stdin)."""
    prog = chk.prog
    n_new = 0
    for f in prog.fn_list:
        if f.derived:
            continue
        refs = []
        for b, t in f.calls():
            nm = callee_name(t["callee"])
            if "BufReader" in nm and nm.endswith(("::new", "::with_capacity")):
                refs.append((b, nm, t))
            for a in t["args"]:
                if a["k"] == "const" and a.get("fn") and "BufReader" in a["fn"] and a["fn"].endswith(("::new", "::with_capacity")):
                    refs.append((b, a["fn"], None))
        for b, nm, t in refs:
            import rules_panic as RP_
            short = RP_.norm_fn(f.path).split("sfs_core::")[-1]
            if nm.endswith("::new"):
                n_new += 1
                chk.ob(rule, "BufReader@%s/capacity-nonzero" % short, True, f.loc(b), "BufReader::new: std's default capacity (8 KiB)")
                continue
            c = an.const_of(f, t["args"][0]) if t is not None else None
            ok = c is not None and isinstance(c.get("val"), int) and c["val"] > 0
            chk.ob(rule, "BufReader@%s/capacity-nonzero" % short, ok, f.loc(b),
                   "BufReader::with_capacity must get a non-zero constant (found %s): a computed capacity can be 0, and then fill_buf() never returns data" % (c.get("val") if c else "a computed value"))
    chk.ob(rule, "BufReader/input-file-is-buffered", n_new >= 1 or any(o["key"].startswith("BufReader@") for o in chk.obs), "",
           "the input file is wrapped in a BufReader somewhere in the workspace (%d default-capacity constructions)" % n_new, nontrivial=False)


def check_C18(chk):
    chk.explanation = (
        "Structural clauses of C18: (a) no short-count I/O primitive (read, write, read_vectored, consume, ...) is called anywhere in the "
        "workspace; all I/O goes through std's loop-until-done methods, which retry short transfers and return the first error; (b) no "
        "Result is discarded (never used, or only passed to ok/is_ok/is_err/unwrap_or*); (c) the slice returned by fill_buf may only be tested "
        "for emptiness: a decision on its contents sees whatever the first read returned; (d) spectrum input is read_to_end before detection and "
        "parsing; (e) no BufWriter whose unflushed data could be lost silently.")
    chk.not_decided = "noodles' and flate2's own handling of short reads inside record parsing"
    c18a(chk)
    c18b(chk)
    c18c(chk)
    buffered_input_capacity(chk, "C18.c")
    c07e(chk)
    for o in chk.obs:
        if o["rule"] == "C07.e":
            o["rule"] = "C18.d"
            o["id"] = "C18.d/" + o["key"]
    chk.rule_counts["C18.d"] = chk.rule_counts.pop("C07.e", 0)
    c18e(chk)
    reader_outcomes(chk, "C18.e")
    # shared clause: a record that cannot be used fails the run instead of being passed over (decided for C08 / C10)
    import rules_geno as RG_
    chk.borrow(lambda: RG_.c08f(chk), "C18.f", 3)
    for r, n in (("C18.a", 7), ("C18.b", 100), ("C18.c", 3), ("C18.d", 5), ("C18.e", 5)):
        chk.floor(r, n)


def _is_ok_payload_of(f, local, call_dest):
    """local is the Ok payload of the Result in call_dest: `match r { Ok(n) => .. }` or `let n = r?;`"""
    l = local
    for _ in range(8):
        d = f.single_def(l)
        if not (d and d[0] == "assign" and d[3]["k"] == "use"):
            return False
        p = op_place(d[3]["op"])
        if p is None:
            return False
        if not p[1]:
            l = p[0]
            continue
        if len(p[1]) == 2 and p[1][0][0] == "downcast" and p[1][0][1] in ("Ok", "Continue") and p[1][1][0] == "field" and p[1][1][1] == 0:
            x = f.copy_root(p[0])
            if x == call_dest:
                return True
            dx = f.single_def(x)
            if dx and dx[0] == "call" and callee_is(dx[2]["callee"], "core::ops::try_trait::Try::branch") and dx[2]["args"]:
                yl = op_local(dx[2]["args"][0])
                return yl is not None and f.copy_root(yl) == call_dest
        return False
    return False


def one_record_per_call(chk, rule):
    """one record in, one status out: the record read is not repeated within a call of the genotype readers (no loop around it, no call
    back into the reader), so no record is passed over on the strength of what another record contained"""
    for kind, reader_call in (("vcf", "read_record"), ("bcf", "read_lazy_record")):
        f = chk.fn("sfs_core::input::genotype::reader::%s::Reader::<R>::read_genotypes" % kind)
        if f is None:
            continue
        rc = [(b, t) for b, t in f.calls() if callee_name(t["callee"]).split("::")[-1] == reader_call]
        if len(rc) != 1:
            chk.fail(rule, "%s::read_genotypes/one-record-per-call" % kind, f.loc(), "expected one %s call, found %d" % (reader_call, len(rc)))
            continue
        rb = rc[0][0]
        in_cycle = f.reaches(rb, rb)
        selfcalls = [callee_name(t_["callee"]) for b_, t_ in f.calls() if b_ != rb and (callee_name(t_["callee"]).split("::")[-1] in ("read_genotypes", reader_call))]
        chk.ob(rule, "%s::read_genotypes/one-record-per-call" % kind, not in_cycle and not selfcalls, f.loc(rb),
               "each call reads exactly one record and reports on that record (record read inside a loop: %s; further reads / recursive calls: %s)" % (in_cycle, selfcalls or "none"))


def readers_do_not_judge(chk, rule):
    """The two genotype readers hand on what noodles decoded, for every column: whether a genotype is usable is decided in read_site, after the
    sample selection.  They call no workspace function on the record (none exists on the reviewed tree) and build no genotype::Error of their
    own (a ploidy test in the reader fails the run for a sample that is not even listed)."""
    prog = chk.prog
    for kind in ("vcf", "bcf"):
        f = chk.fn("sfs_core::input::genotype::reader::%s::Reader::<R>::read_genotypes" % kind)
        if f is None:
            continue
        unit = [f]
        i = 0
        while i < len(unit):
            unit += [c for c in prog.closures_of(unit[i].path) if c not in unit]
            i += 1
        local = sorted({callee_name(t["callee"]) for g in unit for b, t in g.calls() if t["callee"].get("local") and
                        (prog.fn(t["callee"].get("resolved") or t["callee"].get("path") or "") is not None or "sfs_core::" in callee_name(t["callee"]))} |
                       {a["fn"] for g in unit for b, t in g.calls() for a in t["args"] if a["k"] == "const" and a.get("fn") and prog.fn(a["fn"]) is not None})
        # (the one classification funnel `genotype::Result::from` and ReadStatus::map belong to the trait method; when the inherent reader
        # was merged into it they are found here)
        local = [n for n in local if not (n.endswith("for sfs_core::input::genotype::Result>::from") or n.startswith("sfs_core::input::ReadStatus::<T>::")
                                          or n.endswith("::Reader::<R>::read_genotypes") or "::read_vcf_genotypes" in n or n == "core::convert::From::from")]
        own = []
        for g in unit:
            for b, i_, p, rv, s_ in g.assigns():
                if rv["k"] == "aggregate" and (rv.get("adt") or "").startswith("sfs_core::input::genotype::") and rv.get("adt") not in ("sfs_core::input::genotype::reader::%s::Reader" % kind,):
                    own.append("%s::%s at %s" % (rv["adt"].split("::")[-1], rv.get("variant"), g.loc(b)))
        chk.ob(rule, "%s::read_genotypes/hands-on-what-was-decoded" % kind, not local and not own, f.loc(),
               "workspace functions applied to the record in the reader: %s; genotype-level values built in the reader: %s" % (local or "none", own or "none"))
        # must pass through the decode: every ReadStatus::Read built by the reader is dominated by the call that decodes the record's sample
        # columns (`genotypes()` on the record buffer).  A status built in front of it (`if alternate_bases().len() > 1 { return Read(vec![None; n]) }`,
        # an "invariant site" shortcut) reports calls that were never looked at - and only for the container format this reader serves.
        dec = [b for b, t in f.calls() if callee_name(t["callee"]).split("::")[-1] == "genotypes"]
        # (the read-and-decode step extracted into a private helper of the reader: a call of a workspace function that itself - or through
        # at most two further workspace calls - decodes the columns stands for the decode; what the helper does before its own decode is
        # then not looked at, which is stated in DESIGN 11.0.2)
        def _decodes(g_, depth=0):
            if g_ is None or depth > 2:
                return False
            for b_, t_ in g_.calls():
                n_ = callee_name(t_["callee"])
                if n_.split("::")[-1] == "genotypes":
                    return True
                h_ = prog.fn(t_["callee"].get("resolved") or t_["callee"].get("path") or "")
                if h_ is not None and h_ is not g_ and "::genotype::reader::" in h_.path and _decodes(h_, depth + 1):
                    return True
            return False
        for b, t in f.calls():
            h_ = prog.fn(t["callee"].get("resolved") or t["callee"].get("path") or "")
            if h_ is not None and h_ is not f and "::genotype::reader::" in h_.path and _decodes(h_):
                dec.append(b)
        built = [(b, g) for g in unit for b, i_, p, rv, s_ in g.assigns() if rv["k"] == "aggregate" and rv.get("adt") == "sfs_core::input::ReadStatus" and rv.get("variant") == "Read"]
        # decided on the data: the payload of every ReadStatus::Read built here slices back to the decode call (a status built from
        # `vec![None; n]` or from a parsed "0/0" does not), whatever the control flow in between looks like (a helper's `Ok(None)` for "no
        # record" merged with its success value in front of the match that builds the status)
        dec_bbs = set(dec)
        undecoded = []
        for b, i_, p, rv, s_ in f.assigns():
            if rv["k"] == "aggregate" and rv.get("adt") == "sfs_core::input::ReadStatus" and rv.get("variant") == "Read" and rv.get("ops"):
                sl_, info_ = f.slice_locals(rv["ops"][0])
                if not any(cb in dec_bbs for cb, ct in info_["calls"]):
                    undecoded.append(f.loc(b))
        chk.ob(rule, "%s::read_genotypes/Read-only-after-the-sample-columns-were-decoded" % kind, bool(dec) and not undecoded, f.loc(),
               "every ReadStatus::Read is dominated by the record's genotypes() decode (decode calls: %d, Read constructions: %d, not dominated: %s)" % (len(dec), len(built), undecoded or "none"))


def reader_outcomes(chk, rule):
    """a failure of the record reader is an error at every offset: in the two genotype readers `ReadStatus::Done` is constructed only for
    the zero-length successful read, `ReadStatus::Read` only under success of every fallible step, and nothing but `ReadStatus::Error`
    under any failure edge (an `Err(e) if e.kind() == UnexpectedEof => Done` arm turns a truncated stream into a clean end)"""
    READSTATUS = "sfs_core::input::ReadStatus"
    for kind, reader_call in (("vcf", "read_record"), ("bcf", "read_lazy_record")):
        f = chk.fn("sfs_core::input::genotype::reader::%s::Reader::<R>::read_genotypes" % kind)
        if f is None:
            continue
        rc = [(b, t) for b, t in f.calls() if callee_name(t["callee"]).split("::")[-1] == reader_call]
        if len(rc) != 1:
            chk.fail(rule, "%s::read_genotypes/reader-call" % kind, f.loc(), "expected one %s call" % reader_call)
            continue
        rb = rc[0][0]
        ok_edges, err_edges = [], []
        for sb, st in f.switches():
            s_ = an.switch_subject(f, sb)
            if s_["kind"] == "discr" and s_["variants"] and set(s_["variants"].values()) == {"Ok", "Err"}:
                ok_edges.append((sb, an.variant_target(f, sb, "Ok")))
                err_edges.append((sb, an.variant_target(f, sb, "Err")))
        first = [(sb, t_) for sb, t_ in ok_edges if any(x[0] == sb for x in an.switches_on_call_result(f, rb))]
        tb_ = an.try_branch_of(f, rb)
        if tb_ is not None:
            # `read_record(..)?`: the continue edge is the success edge, the break edge the failure edge
            first.append((tb_[1], tb_[2]))
            err_edges.append((tb_[1], tb_[3]))
        rd_ = an.call_dest_local(f.term(rb))
        bad = []
        n_done = 0
        for b, i, p_, rv, x_ in f.assigns():
            if not (rv["k"] == "aggregate" and rv.get("adt") == READSTATUS):
                continue
            under_err = [f.loc(sb) for sb, t_ in err_edges if t_ is not None and an.dominated_by_edge(f, sb, t_, b)]
            # (also where the failure arm merges with the success arm: `Err(e) if e.kind() != InvalidData => Error(e), _ => { .. Read(..) }`)
            if not under_err and rv["variant"] in ("Done", "Read"):
                for sb, t_ in err_edges:
                    if t_ is None:
                        continue
                    inf_ = an.infeasible_edges_from(f, t_, None)
                    if b in an.reachable_with_edges_removed(f, t_, set(), inf_) and sb in [x[0] for x in first]:
                        under_err.append("%s (reachable from the failure edge)" % f.loc(sb))
            v = rv["variant"]
            if v in ("Done", "Read") and under_err:
                bad.append("%s constructed under the failure edge at %s" % (v, under_err))
            if v == "Done":
                n_done += 1
                under_first_ok = any(an.dominated_by_edge(f, sb, t_, b) for sb, t_ in first)
                # .. and under `n == 0`: a switch on the Ok payload (or a comparison of it with 0) whose zero edge dominates
                zero = False
                for sb, st in f.switches():
                    pl = op_place(st["discr"])
                    isz = pl is not None and any(e[0] == "downcast" and e[1] == "Ok" for e in pl[1])
                    if not isz:
                        s_ = an.switch_subject(f, sb)
                        d_ = f.single_def(s_["root"]) if s_["root"] is not None else None
                        if d_ and d_[0] == "assign" and d_[3]["k"] == "binop" and d_[3]["op"] in ("Eq", "Ne") and 0 in (const_val(d_[3]["l"]), const_val(d_[3]["r"])):
                            # (the value compared with 0 is the byte count the record read returned)
                            other_ = d_[3]["r"] if const_val(d_[3]["l"]) == 0 else d_[3]["l"]
                            ol_ = op_local(other_)
                            from_read = ol_ is not None and _is_ok_payload_of(f, ol_, rd_)
                            t0 = st["otherwise"] if d_[3]["op"] == "Eq" else an.edge_target(st, 0)
                            zero = zero or (from_read and an.dominated_by_edge(f, sb, t0, b))
                        continue
                    zero = zero or an.dominated_by_edge(f, sb, an.edge_target(st, 0), b)
                if not (under_first_ok and zero):
                    bad.append("Done not under `Ok(0)` of the record read (success edge=%s, zero length=%s)" % (under_first_ok, zero))
        chk.ob(rule, "%s::read_genotypes/Done-only-on-Ok(0),nothing-but-Error-on-failure" % kind, not bad and n_done == 1 and bool(err_edges), f.loc(),
               "end of input is the zero-length successful read and nothing else; every failure becomes ReadStatus::Error (%s)" % (bad or "ok"))
    one_record_per_call(chk, rule)
    readers_do_not_judge(chk, rule)
    # the site reader forwards the genotype reader's status: Done stays Done, Error stays Error
    rsite = chk.fn("sfs_core::input::site::reader::Reader::read_site")
    if rsite is not None:
        rg = [(b, t) for b, t in rsite.calls() if callee_name(t["callee"]).split("::")[-1] == "read_genotypes"]
        ok = False
        why = "switch on the status returned by read_genotypes not recognised"
        if len(rg) == 1:
            for sb, s_ in an.switches_on_call_result(rsite, rg[0][0]):
                if s_["kind"] != "discr" or s_.get("adt") != READSTATUS:
                    continue
                td, te, tr = (an.variant_target(rsite, sb, v) for v in ("Done", "Error", "Read"))
                distinct = len({td, te, tr}) == 3
                dones = [b for b, i, p_, rv, x_ in rsite.assigns() if rv["k"] == "aggregate" and rv.get("adt") == READSTATUS and rv["variant"] == "Done"]
                errs = [b for b, i, p_, rv, x_ in rsite.assigns() if rv["k"] == "aggregate" and rv.get("adt") == READSTATUS and rv["variant"] == "Error"]
                done_ok = bool(dones) and all(an.dominated_by_edge(rsite, sb, td, b) for b in dones)
                err_ok = any(an.dominated_by_edge(rsite, sb, te, b) for b in errs)
                # under the Error edge nothing but an Error is returned
                bad = [rv["variant"] for b, i, p_, rv, x_ in rsite.assigns() if rv["k"] == "aggregate" and rv.get("adt") == READSTATUS and rv["variant"] != "Error" and te is not None and an.dominated_by_edge(rsite, sb, te, b)]
                ok = distinct and done_ok and err_ok and not bad
                why = "three distinct arms=%s, Done only under Done=%s, Error under Error=%s, other statuses under the Error edge: %s" % (distinct, done_ok, err_ok, bad)
        chk.ob(rule, "site::read_site/forwards-Done-and-Error", ok, rsite.loc(), "the genotype reader's end of input and failure are handed on as they are (%s)" % why)
    # the trait impls only map the success payload
    for kind in ("vcf", "bcf"):
        g = chk.fn("<sfs_core::input::genotype::reader::%s::Reader<R> as sfs_core::input::genotype::reader::Reader>::read_genotypes" % kind)
        if g is not None:
            names = [callee_name(t["callee"]).split("::")[-1] for b, t in g.calls()]
            ok_ = names == ["read_genotypes", "map"] and not list(g.switches())
            why_ = "calls %s" % names
            if chk.prog.fn("sfs_core::input::genotype::reader::%s::Reader::<R>::read_genotypes" % kind) is g:
                # the inherent reader was merged into the trait method: its statuses are this function's, judged by the outcome rule above
                ok_ = True
                why_ = "the inherent read_genotypes was merged into the trait method; Done / Read / Error are judged on the merged function"
            elif not ok_:
                # the status matched by hand: Done => Done, Error(e) => Error(e), Read(x) => Read(convert(x))
                rg_ = [(b, t) for b, t in g.calls() if names and callee_name(t["callee"]).split("::")[-1] in ("read_genotypes", "read_vcf_genotypes") or (t["callee"].get("path") or "").endswith("::Reader::<R>::read_genotypes")]
                RS_ = "sfs_core::input::ReadStatus"
                if len(rg_) == 1:
                    for sb, s_ in an.switches_on_call_result(g, rg_[0][0]):
                        if s_["kind"] == "discr" and s_.get("adt") == RS_:
                            tg = {v: an.variant_target(g, sb, v) for v in ("Done", "Error", "Read")}
                            built = [(b, rv["variant"]) for b, i, p_, rv, x_ in g.assigns() if rv["k"] == "aggregate" and rv.get("adt") == RS_]
                            same = all(any(v2 == v and an.dominated_by_edge(g, sb, tg[v], b) for b, v2 in built) for v in ("Done", "Error", "Read")) and \
                                all(any(an.dominated_by_edge(g, sb, tg[v], b) for v in (v2,)) for b, v2 in built)
                            ok_ = len(set(tg.values())) == 3 and same
                            why_ = "status matched by hand: each status is rebuilt under its own arm only=%s" % same
            chk.ob(rule, "%s::Reader::read_genotypes=inherent.map(..)" % kind, ok_, g.loc(),
                   "the trait method forwards the inherent reader's status and converts only the Read payload (%s)" % why_)


def c18a(chk):
    prog = chk.prog
    counts = {}
    for f in prog.fn_list:
        if f.derived:
            continue
        for b, t in f.calls():
            cp = t["callee"].get("path") or ""
            if cp.startswith(("std::io::Read::", "std::io::Write::", "std::io::BufRead::")):
                counts[cp] = counts.get(cp, 0) + 1
                chk.saw_calls()
                if cp in SHORT_COUNT or cp not in LOOPING_IO:
                    # a forwarding impl (`impl Write for Sink { fn write(&mut self, buf) -> io::Result<usize> { self.inner.write(buf) } }`) hands
                    # the count on to its own caller: it is that caller's loop (write_all) which completes the transfer
                    meth = cp.split("::")[-1]
                    m_ = re.match(r"^<(sfs(_core)?::[\w:]+)(<.*>)? as std::io::(Read|Write|BufRead)>::(\w+)$", f.path)
                    if m_ and m_.group(5) == meth and an.call_dest_local(t) == 0:
                        chk.ob("C18.a", "forwarding-io/%s@%s" % (meth, f.path), True, f.loc(b), "the impl of %s forwards to the inner %s and returns its result unchanged" % (meth, meth), nontrivial=False)
                        counts[cp] -= 1
                        if not counts[cp]:
                            del counts[cp]
                        continue
                    chk.ob("C18.a", "short-count-io/%s@%s" % (cp.split("::")[-1], f.path), False, f.loc(b),
                           "`%s` transfers an unspecified number of bytes per call (or is not on the reviewed loop-until-done list); results would depend on chunking" % cp)
    for cp in sorted(counts):
        if cp in LOOPING_IO:
            chk.ob("C18.a", "io-method/%s" % cp.split("::", 2)[-1], True, "", "%d call site(s); loop-until-done by std's contract" % counts[cp])
    zero = [cp for cp in SHORT_COUNT if counts.get(cp, 0) == 0]
    chk.ob("C18.a", "short-count-io/none(control:looping-found=%s)" % (sum(counts.values()) > 0), len(zero) == len(SHORT_COUNT) and sum(counts.values()) >= 40, "",
           "0 calls of %s; positive control: the same matcher finds %d calls of the looping siblings" % ([c.split("::")[-1] for c in SHORT_COUNT], sum(counts.values())), nontrivial=False)
    chk.extra["io_method_counts"] = counts


def local_uses(f, local):
    """list of (bb, kind, detail) uses of a local (as operand / place root), excluding its definition"""
    uses = []
    for b in f.nodes():
        for s in f.stmts(b):
            if s["k"] != "assign":
                continue
            rv = s["rv"]
            ps = []
            if rv["k"] in ("ref", "rawptr", "discr"):
                ps.append(P(rv["place"]))
            for o in rv_operands(rv):
                p = op_place(o)
                if p:
                    ps.append(p)
            for p in ps:
                if p[0] == local:
                    uses.append((b, "stmt", rv["k"]))
            lp = P(s["place"])
            if lp[0] == local and lp[1]:
                uses.append((b, "partial-write", ""))
        t = f.term(b)
        if t["k"] == "call":
            for a in t["args"]:
                p = op_place(a)
                if p and p[0] == local:
                    uses.append((b, "call", callee_name(t["callee"]) if t["callee"].get("path") else "indirect"))
        elif t["k"] == "switch":
            p = op_place(t["discr"])
            if p and p[0] == local:
                uses.append((b, "switch", ""))
    return uses


def c18b(chk):
    prog = chk.prog
    reviewed = {
        ("sfs_core::input::Input::new", "std::env::var"): "env::var(..).is_err(): presence test of an environment variable, not an I/O result",
    }
    n = 0
    for f in prog.fn_list:
        if f.derived or "clap_builder" in f.path:
            continue
        for b, t in f.calls():
            if not t["dest_ty"].startswith("core::result::Result<"):
                continue
            d = an.call_dest_local(t)
            if d is None or d == 0:
                n += 1
                continue
            n += 1
            uses = local_uses(f, d)
            nm = callee_name(t["callee"]) or "indirect"
            key = (f.path, t["callee"].get("path") or "indirect")
            if not uses:
                chk.ob("C18.b", "discarded/%s@%s" % (nm, f.path), key in reviewed, f.loc(b), reviewed.get(key, "the Result of `%s` is never used (let _ = / statement position): an error would be swallowed" % nm))
                continue
            disc = [u for u in uses if u[1] == "call" and u[2] in DISCARDING]
            if disc and len(disc) == len(uses) and "std::io::error::Error" not in t["dest_ty"]:
                # not an I/O result (a number that does not parse): `.ok()` / `.err()` keep the failure as None / Some as long as that
                # Option is itself looked at (returned, matched, collected); only an Option nobody reads loses it
                kept = []
                for u in disc:
                    if u[2].split("::")[-1] not in ("ok", "err"):
                        continue
                    ot = f.term(u[0])
                    od = an.call_dest_local(ot)
                    if od == 0 or (od is not None and [x for x in local_uses(f, od)]):
                        kept.append(u)
                if len(kept) == len(disc):
                    disc = []
            if disc and len(disc) == len(uses):
                chk.ob("C18.b", "discarded-via-%s/%s@%s" % (disc[0][2].split("::")[-1], nm, f.path), key in reviewed, f.loc(b),
                       reviewed.get(key, "the Result of `%s` only flows into `%s`, which drops the error" % (nm, disc[0][2])))
                continue
            chk.ob("C18.b", "consumed/%s@%s#%d" % (nm.split("::")[-1], f.path, sum(1 for o in chk.obs if o["key"].startswith("consumed/%s@%s#" % (nm.split("::")[-1], f.path)))), True, f.loc(b),
                   "Result consumed by %s" % sorted({u[2] or u[1] for u in uses})[:3], nontrivial=False)
    chk.extra["result_calls_examined"] = n
    # the `?` operator itself: every from_residual result is the function's return value
    bad = []
    for f in prog.fn_list:
        if f.derived:
            continue
        for b, t in f.calls():
            # (the return place of a helper inlined by canon.py counts as a return place: its value is moved to the call's destination)
            if callee_is(t["callee"], N.FROM_RESIDUAL) and P(t["dest"])[0] != 0 and P(t["dest"])[0] not in (f.raw.get("inlined_ret") or []):
                bad.append(f.loc(b))
    chk.ob("C18.b", "try-operator/residual-is-returned", not bad, "", "every `?` error edge assigns the function's return value (%d exceptions)" % len(bad))


def c18c(chk):
    prog = chk.prog

    site_counts = {}

    def flow(f, seeds, skip_bb=None):
        """(content-dependent sinks of the byte slice held in `seeds` within f, [(workspace callee, its parameter local)] it is handed to)"""
        derived = set(seeds)
        changed = True
        while changed:
            changed = False
            for b2, i, p, rv, s_ in f.assigns():
                if p[1]:
                    continue
                srcs = []
                if rv["k"] in ("use", "cast"):
                    q = op_place(rv["op"])
                    if q:
                        srcs.append(q[0])
                if rv["k"] in ("ref", "rawptr"):
                    srcs.append(P(rv["place"])[0])
                if any(x in derived for x in srcs) and p[0] not in derived:
                    derived.add(p[0])
                    changed = True
            for b2, t2 in f.calls():
                if callee_is(t2["callee"], N.TRY_BRANCH) and op_local(t2["args"][0]) in derived:
                    dl = an.call_dest_local(t2)
                    if dl is not None and dl not in derived:
                        derived.add(dl)
                        changed = True
        sinks = set()
        passed = []
        for b2, t2 in f.calls():
            if b2 == skip_bb:
                continue
            hit = [i_ for i_, a in enumerate(t2["args"]) if op_place(a) and op_place(a)[0] in derived]
            if hit:
                nm = callee_name(t2["callee"])
                if callee_is(t2["callee"], N.TRY_BRANCH, N.FROM_RESIDUAL):
                    continue
                tg = [g for g in prog.call_targets(f, t2) if g.kind != "Closure"] if t2["callee"].get("local") else []
                if len(tg) == 1 and not tg[0].derived:
                    # handed to a workspace function: what happens to the bytes is decided there
                    for i_ in hit:
                        passed.append((tg[0], i_ + 1))
                    continue
                sinks.add(nm)
                site_counts[(f.path, nm)] = site_counts.get((f.path, nm), 0) + 1
        for b2, i, p, rv, s_ in f.assigns():
            if rv["k"] == "binop" and any(op_place(o) and op_place(o)[0] in derived for o in (rv["l"], rv["r"])):
                sinks.add("compare:" + rv["op"])
            if rv["k"] == "unop" and rv["op"] == "PtrMetadata" and op_place(rv["operand"]) and op_place(rv["operand"])[0] in derived:
                sinks.add("len")
        return sinks, passed

    for f in prog.fn_list:
        if f.derived:
            continue
        for b, t in f.calls():
            if not callee_is(t["callee"], "std::io::BufRead::fill_buf"):
                continue
            chk.saw_calls()
            # the slice: payload of the Ok / Continue; followed into the workspace functions it is handed to (the obligation is keyed by
            # the function that examines the bytes, wherever the fill_buf() call itself stands)
            work = [(f, {an.call_dest_local(t)}, b)]
            seen = set()
            per_fn = {}
            site_counts.clear()
            while work:
                g, seeds, skip = work.pop()
                key_ = (g.path, tuple(sorted(x for x in seeds if x is not None)))
                if key_ in seen or len(seen) > 12:
                    continue
                seen.add(key_)
                sinks, passed = flow(g, seeds, skip)
                per_fn.setdefault(g.path, set()).update(sinks)
                chk.fns_analysed.add(g.path)
                for h, pl in passed:
                    work.append((h, {pl}, None))
            if not any(v for v in per_fn.values()):
                per_fn = {f.path: set()}
            for gp, sinks in sorted(per_fn.items()):
                if gp != f.path and not sinks:
                    continue
                content = sorted(x for x in sinks if x not in ("core::slice::<impl [T]>::is_empty",))
                if gp == f.path and not content and any(v - {"core::slice::<impl [T]>::is_empty"} for k_, v in per_fn.items() if k_ != gp):
                    continue
                # the key names the sinks, so that a further content-dependent decision at an already recorded site is a new violation
                # (by kind, not by method: peeking at a prefix through get(..n), starts_with, first, split_first, [..n], == is one kind)
                # and with the number of prefix peeks, so that a second content-dependent decision at a recorded site is a new violation
                kinds = sorted({x.split("::")[-1] for x in content if x.split("::")[-1] not in PREFIX_PEEKS})
                npeek = sum(site_counts.get((gp, x), 1) for x in content if x.split("::")[-1] in PREFIX_PEEKS and not x.startswith("compare:"))
                if npeek:
                    kinds.append("prefix" if npeek == 1 else "prefix*%d" % npeek)
                kx = ("[sinks=%s]" % ",".join(sorted(kinds))) if content else ""
                chk.ob("C18.c", "fill_buf@%s/only-emptiness%s" % (gp, kx), not content, f.loc(b),
                       "the bytes returned by fill_buf (one chunk of unspecified length) may only be tested with is_empty(); here they also flow into %s%s, "
                       "so the decision depends on how the stream was chunked" % (content, "" if gp == f.path else " in %s" % gp))


PREFIX_PEEKS = ("get", "starts_with", "first", "index", "split_first", "split_at", "split_at_checked", "first_chunk", "split_first_chunk", "eq", "ne", "iter", "len", "contains")


def c18e(chk):
    prog = chk.prog
    bw = []
    flushed = []
    for f in prog.fn_list:
        if f.derived:
            continue
        locs = [i for i, l in enumerate(f.locals) if "std::io::buffered::bufwriter::BufWriter" in l["ty"] or "std::io::buffered::linewriter::LineWriter" in l["ty"]]
        if not locs:
            continue
        # a buffered writer that lives and dies in one function is fine if that function cannot succeed without flushing it: every way
        # from its construction to a return passes `w.flush()` / `w.into_inner()` whose Result is handed on, or an error return (`?`)
        ok_here = True
        news = [(b, t) for b, t in f.calls() if callee_name(t["callee"]).split("::")[-1] in ("new", "with_capacity") and "BufWriter" in callee_name(t["callee"])]
        owners = {an.call_dest_local(t) for b, t in news}
        plain = [i for i in locs if not f.local_ty(i).startswith(("&", "alloc::boxed::Box<"))]
        if not news or not owners or any(f.copy_root(i) not in owners and i not in owners and not f.local_ty(i).startswith("&") for i in plain):
            ok_here = False
        else:
            for nb, nt in news:
                w = an.call_dest_local(nt)
                stops = set()
                for b2, t2 in f.calls():
                    nm = callee_name(t2["callee"]).split("::")[-1]
                    if nm in ("flush", "into_inner") and t2["args"]:
                        tg = f.resolve_ptr(op_local(t2["args"][0])) if op_local(t2["args"][0]) is not None else None
                        owner = tg[0] if tg is not None else (f.copy_root(op_local(t2["args"][0])) if op_local(t2["args"][0]) is not None else None)
                        d2 = an.call_dest_local(t2)
                        handed_on = d2 == 0 or an.try_branch_of(f, b2) is not None or d2 in (f.raw.get("inlined_ret") or []) or \
                            any(x[0] == "assign" and x[3]["k"] == "use" and op_local(x[3]["op"]) == d2 for x in f.defs.get(0, []))
                        if owner is not None and f.copy_root(owner) == f.copy_root(w) and handed_on:
                            stops.add(b2)
                    if callee_is(t2["callee"], N.FROM_RESIDUAL):
                        stops.add(b2)
                silent = [b3 for b3 in f.reachable_from(nb, avoid=stops) if f.term(b3)["k"] == "return"] if nb not in stops else []
                if not stops or silent:
                    ok_here = False
        (flushed if ok_here else bw).append(f.path)
    for a in prog.adts.values():
        for v in a["variants"]:
            for fld in v["fields"]:
                if "BufWriter" in fld["ty"]:
                    bw.append(a["path"])
    chk.extra["bufwriters_flushed_before_success"] = sorted(set(flushed))
    chk.ob("C18.e", "no-BufWriter", not bw, "", "no BufWriter/LineWriter value exists in the workspace that could be dropped with unwritten bytes: none at all, or only ones whose function cannot return without `flush()?` / an error (unflushed or escaping: %s; flushed before every success: %s)" % (sorted(set(bw)), sorted(set(flushed))))


# ---- contradiction rule: a k-element window compared for equality with an n-element constant, k != n, is never equal ----
def _array_len_of_ty(ty):
    m = re.search(r"\[[^;\]]+; (\d+)\]", ty or "")
    return int(m.group(1)) if m else None


def _len_value(f, op, depth=0):
    """compile-time value of a length operand: an integer constant, or `len()` of an array (constant or coerced array reference)"""
    c = an._const_int_of(f, op)
    if c is not None:
        return c
    l = op_local(op)
    if l is None or depth > 6:
        return None
    d = f.single_def(f.copy_root(l))
    if d and d[0] == "call" and (d[2]["callee"].get("path") or "") == "core::slice::<impl [T]>::len" and d[2]["args"]:
        a = op_local(d[2]["args"][0])
        dd = f.single_def(f.copy_root(a)) if a is not None else None
        if dd and dd[0] == "assign" and dd[3]["k"] == "cast" and "Unsize" in (dd[3].get("kind") or ""):
            return _array_len_of_ty(dd[3].get("from"))
    return None


def _range_window(f, op):
    """(start, length) of a constant range operand `..n`, `..=n`, `a..b`, else None"""
    l = op_local(op)
    d = f.single_def(f.copy_root(l)) if l is not None else None
    if not (d and d[0] == "assign" and d[3]["k"] == "aggregate" and (d[3].get("adt") or "").startswith("core::ops::range::")):
        return None
    kind = d[3]["adt"].split("::")[-1]
    vals = [_len_value(f, o) for o in d[3]["ops"]]
    if any(v is None for v in vals):
        return None
    if kind == "RangeTo":
        return (0, vals[0])
    if kind == "RangeToInclusive":
        return (0, vals[0] + 1)
    if kind == "Range":
        return (vals[0], vals[1] - vals[0])
    return None


def window_constant_compares(prog, want=lambda f: True):
    """[(fn, block, window_len, const_len)] for every `==` between a constant-range window of a slice (`s.get(a..b)`, `&s[a..b]`)
    and a fixed-size array in the selected workspace functions"""
    out = []
    for f in prog.fn_list:
        if f.derived or not want(f):
            continue
        for b, t in f.calls():
            ce = t["callee"]
            if (ce.get("path") or "") not in ("core::cmp::PartialEq::eq", "core::cmp::PartialEq::ne"):
                continue
            args_ty = ce.get("args") or []
            n = None
            win = None
            for i, a in enumerate(t["args"][:2]):
                ty = args_ty[i] if i < len(args_ty) else ""
                k = _array_len_of_ty(ty) if ty.lstrip("&").startswith("[") and ";" in ty else None
                if k is not None:
                    n = k
                    continue
                # a slice operand: where does it come from
                l = op_local(a)
                seen = 0
                while l is not None and seen < 12:
                    seen += 1
                    d = f.single_def(f.copy_root(l))
                    if d is None:
                        break
                    if d[0] == "assign" and d[3]["k"] == "ref":
                        l = d[3]["place"]["l"] if isinstance(d[3]["place"], dict) else P(d[3]["place"])[0]
                        continue
                    if d[0] == "assign" and d[3]["k"] == "use":
                        p = op_place(d[3]["op"])
                        if p is None:
                            break
                        l = p[0]
                        continue
                    if d[0] == "call" and (d[2]["callee"].get("path") or "") in ("core::slice::<impl [T]>::get", "core::ops::Index::index", "core::slice::<impl [T]>::get_mut") and len(d[2]["args"]) == 2:
                        win = _range_window(f, d[2]["args"][1])
                    break
            if n is not None and win is not None:
                out.append((f, b, win[1], n))
    return out
