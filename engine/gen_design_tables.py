#!/usr/bin/env python3
"""Rewrites the seeded-changes table of DESIGN.md section 12.1 from /verif/seeded/*/meta.json (first_result = what was reported at
intake, caught_by = what is reported now, as last recorded by engine/seed_reeval.py)."""
import json, os, re, glob
V = os.path.dirname(os.path.dirname(os.path.abspath(__file__)))
rows = []
for d in sorted(glob.glob(os.path.join(V, "seeded", "*"))):
    mp = os.path.join(d, "meta.json")
    if not os.path.exists(mp):
        continue
    m = json.load(open(mp))
    fr = m.get("first_result")
    if isinstance(fr, dict):
        fr = fr.get("caught_by") or "missed"
    if fr == []:
        fr = "missed"
    first = "**missed**" if fr == "missed" else (", ".join(fr) if isinstance(fr, list) else str(fr))
    now = []
    for pid, lines in sorted((m.get("caught_by") or {}).items()):
        rule = ""
        if lines:
            mm = re.search(r"rule=(\S+)", lines[0]) or re.search(r"^(C\d\d\.\w)", lines[0])
            rule = mm.group(1) if mm else ""
        now.append("%s (%s)" % (pid, rule) if rule else pid)
    if m.get("note_not_applicable"):
        now = [m["note_not_applicable"]]
    summ = (m.get("summary") or "").replace("|", "/")
    if m.get("twin") in ("silent", "alarms"):
        # round 4: the same rewrite with the break removed (`seedfix-<id>`): accepted silently, or still alarming (then the report above is
        # not specific to the break)
        summ += " — *repaired twin: %s*" % ("accepted" if m["twin"] == "silent" else "also alarms")
    rows.append("| %s | %s | %s | %s |" % (m["id"], summ, first, ", ".join(now) or "**none**"))
p = os.path.join(V, "DESIGN.md")
s = open(p).read()
head = "| id | change (written by an independent sub-agent for the property in its name) | reported at intake by | reported now by (rule) |\n|---|---|---|---|\n"
a = s.index(head) + len(head)
b = a
lines = s[a:].split("\n")
n = 0
for l in lines:
    if l.startswith("| C"):
        n += 1
    else:
        break
b = a + sum(len(l) + 1 for l in lines[:n])
s = s[:a] + "\n".join(rows) + "\n" + s[b:]
open(p, "w").write(s)
def cnt(tag, missed=False):
    return sum(1 for r in rows if tag in r.split("|")[1] and (not missed or "**missed**" in r))
print("rows: %d; round 1: %d (missed at intake %d); round 2: %d (missed %d); round 3: %d (missed %d); round 4: %d (missed %d); round 5: %d (missed %d); round 6: %d (missed %d); round 7: %d (missed %d); round 8: %d (missed %d); round 9: %d (missed %d); round 10: %d (missed %d); not reported now: %d" % (
    len(rows), cnt("-s"), cnt("-s", True), cnt("-t"), cnt("-t", True), cnt("-u"), cnt("-u", True), cnt("-v"), cnt("-v", True), cnt("-w"), cnt("-w", True), cnt("-x"), cnt("-x", True), cnt("-y"), cnt("-y", True), cnt("-z"), cnt("-z", True), cnt("-a"), cnt("-a", True), cnt("-b"), cnt("-b", True), sum(1 for r in rows if "**none**" in r)))
